"""C03 - the dispatcher passes arguments, defaults, results and errors through intact."""

import ast

from .. import anchors as A
from ..cfg import all_stmts
from ..model import AnalysisError, call_name, dotted, is_self_attr, parent_map, short, src
from ..norm import _split_offset
from ..skeleton import Skeleton, emissions, from_format, from_fstring
from .c05 import lookup_path
from .common import cfg_of, recv_name


# ----------------------------------------------------------------- generator model
class EntryGen:
    def __init__(self, ctx):
        repo = ctx.repo
        self.fi = gen = A.entry_generator(repo)
        mod = gen.module
        self.call_tpl = [k for k, v in mod.str_constants.items() if "OVLD.map" in v]
        ctx.require(len(self.call_tpl) == 1, "call template not found")
        self.call_tpl = self.call_tpl[0]
        self.format_calls = []  # (Call node, enclosing For or None)
        pm = parent_map(gen.node)
        for n in ast.walk(gen.node):
            if isinstance(n, ast.Call) and isinstance(n.func, ast.Attribute) and n.func.attr == "format" and dotted(n.func.value) == self.call_tpl:
                loop = None
                p = n
                while p in pm:
                    p = pm[p]
                    if isinstance(p, ast.For):
                        loop = p
                        break
                self.format_calls.append((n, loop))
        ctx.require(self.format_calls, "no call_template.format site")
        full = [c for c, lp in self.format_calls if lp is None]
        ctx.require(len(full) == 1, f"expected one full-call format site, found {len(full)}")
        self.full = full[0]
        kw = {k.arg: k.value for k in self.full.keywords}
        # which template field is the lookup key and which the forwarded arguments: read it off the template
        sk = from_format(mod.str_constants[self.call_tpl])
        self.f_lookup = self.f_posargs = None
        for n in ast.walk(sk.tree):
            if isinstance(n, ast.Subscript) and dotted(n.value) == "OVLD.map":
                hs = [h for x in ast.walk(n.slice) if isinstance(x, ast.Name) for h in sk.hole_of(x.id)]
                self.f_lookup = hs[0] if hs else None
            if isinstance(n, ast.Return) and isinstance(n.value, ast.Call):
                hs = [h for a in n.value.args if isinstance(a, ast.Name) for h in sk.hole_of(a.id)]
                self.f_posargs = hs[0] if hs else None
        import re as _re

        tpl_text = mod.str_constants[self.call_tpl]
        if not self.f_lookup:
            m = _re.search(r"OVLD\.map[^\n]*?\{(\w+)\}", tpl_text)
            self.f_lookup = m.group(1) if m else None
        if not self.f_posargs:
            m = _re.search(r"\{\w+\}\(\{(\w+)\}\)", tpl_text)
            self.f_posargs = m.group(1) if m else None
        ctx.require(self.f_lookup and self.f_posargs, "the call template has no lookup / forwarded-argument field")
        ctx.require({self.f_lookup, self.f_posargs} <= set(kw), f"the full call lacks {self.f_lookup}= / {self.f_posargs}=")
        self.lookup = self._base_list(kw[self.f_lookup])
        self.posargs = self._base_list(kw[self.f_posargs])
        ctx.require(self.lookup and self.posargs, "could not identify the lookup / forwarded-argument lists")
        # declaration list: passed as args= to the module template
        self.args = None
        for n in ast.walk(gen.node):
            if isinstance(n, ast.Call) and isinstance(n.func, ast.Attribute) and n.func.attr == "format" and dotted(n.func.value) != self.call_tpl:
                for k in n.keywords:
                    if k.arg == "args":
                        self.args = self._base_list(k.value)
        ctx.require(self.args, "could not identify the parameter-declaration list")
        self.init_len = {}
        for st in all_stmts(gen.node):
            if isinstance(st, ast.Assign) and len(st.targets) == 1 and isinstance(st.targets[0], ast.Name) and isinstance(st.value, ast.List):
                self.init_len.setdefault(st.targets[0].id, len(st.value.elts))
        self.param_loops = [
            st
            for st in all_stmts(gen.node)
            if isinstance(st, ast.For)
            and loop_var(st) is not None
            and any(isinstance(c, ast.Call) and isinstance(c.func, ast.Attribute) and c.func.attr == "append" and dotted(c.func.value) == self.args for c in ast.walk(st))
        ]
        ctx.require(len(self.param_loops) >= 3, f"expected a loop per parameter class, found {len(self.param_loops)}")

    @staticmethod
    def _base_list(e):
        """join(x[...] + x[...], ...) / join(x) -> 'x'"""
        if isinstance(e, ast.Call) and e.args:
            e = e.args[0]
        names = {n.id for n in ast.walk(e) if isinstance(n, ast.Name) and isinstance(n.ctx, ast.Load)}
        cands = [n for n in names]
        # the list is the name that is subscripted or passed whole
        for n in ast.walk(e):
            if isinstance(n, ast.Subscript) and isinstance(n.value, ast.Name):
                return n.value.id
        if isinstance(e, ast.Name):
            return e.id
        return None


def loop_var(lp):
    """The parameter name variable of a per-parameter loop: `for name in X` or `for i, name in enumerate(X[, start])`."""
    if isinstance(lp.target, ast.Name):
        return lp.target.id
    if isinstance(lp.target, ast.Tuple) and len(lp.target.elts) == 2 and all(isinstance(e, ast.Name) for e in lp.target.elts) and isinstance(lp.iter, ast.Call) and call_name(lp.iter) == "enumerate":
        return lp.target.elts[1].id
    return None


def loop_iterable(lp):
    if isinstance(lp.iter, ast.Call) and call_name(lp.iter) == "enumerate" and lp.iter.args:
        return lp.iter.args[0]
    return lp.iter


def entrygen(ctx):
    if "entrygen" not in ctx.cache:
        ctx.cache["entrygen"] = EntryGen(ctx)
    return ctx.cache["entrygen"]


def _appends(loop, listname):
    """append calls to `listname` in loop body with the path condition kind: 'always' or 'branch'."""
    out = []

    def rec(stmts, cond):
        for st in stmts:
            if isinstance(st, ast.Expr) and isinstance(st.value, ast.Call):
                c = st.value
                if isinstance(c.func, ast.Attribute) and c.func.attr == "append" and dotted(c.func.value) == listname and len(c.args) == 1:
                    out.append((c, cond))
            elif isinstance(st, ast.If):
                rec(st.body, cond + [st])
                rec(st.orelse, cond + [st])

    rec(loop.body, [])
    return out


def _frag(node):
    """Skeleton of an appended fragment; a bare Name is a hole of that name."""
    if isinstance(node, ast.Name):
        return Skeleton("__H0__", {"__H0__": node.id}, node)
    return from_fstring(node)


def _strip_conv(h):
    return h[:-2] if h.endswith(("!r", "!s", "!a")) else h


def _safe_parse(sk):
    text = sk.text.strip()
    if text.endswith(":"):
        text += " pass"
    if text.startswith(("elif ", "else:")):
        text = "if X: pass\n" + text
    try:
        return ast.parse(text)
    except SyntaxError:
        return ast.Module(body=[], type_ignores=[])


# ----------------------------------------------------------------- R1
def _enclosing_try(fnode, node):
    pm = parent_map(fnode)
    p = node
    while p in pm:
        p = pm[p]
        if isinstance(p, ast.Try):
            return p
    return None


def r1_pure_handover(ctx):
    repo = ctx.repo
    gen = A.entry_generator(repo)
    try:
        eg = entrygen(ctx)
    except AnalysisError:
        eg = None
    oc = A.function_class(repo)
    depgen = A.dependent_generator(repo)
    ctx.touch(gen, depgen)
    n = 0

    def check_skeleton(sk, key, loc, what):
        nonlocal n
        tree = sk.tree
        rets = [x for x in ast.walk(tree) if isinstance(x, ast.Return)]
        tries = [x for x in ast.walk(tree) if isinstance(x, ast.Try)]
        calls_ok = bool(rets) and all(isinstance(r.value, ast.Call) for r in rets)
        n += 1
        ctx.ob(
            key,
            loc,
            f"{what}: the selected method's call is the operand of `return`, not wrapped, tested or enclosed in a try",
            calls_ok and not tries,
            f"the emitted code `{' '.join(sk.text.split())[:80]}` post-processes the method's result or catches its exceptions: some result or error no longer reaches the caller unchanged",
        )

    def _tpl(ctx_):
        tpl = gen.module.str_constants[eg.call_tpl]
        node = gen.module.assigns[eg.call_tpl]
        check_skeleton(from_format(tpl, node), f"{gen.module.name}.{eg.call_tpl}:return-call", f"{gen.module.rel}:{node.lineno}", "entry point")

    _with_fallback(ctx, ("hand-over",), _tpl)
    n += 1
    def _dep_skeleton(ctx_):
        nonlocal n
        # dependent skeletons: every emitted line that calls HANDLER*/FALLTHROUGH
        for e in emissions(depgen.node):
            sk = e.skeleton
            if "HANDLER" not in sk.text and "FALLTHROUGH" not in sk.text:
                continue
            text = sk.text.strip()
            if text.startswith(("if ", "elif ")) and text.rstrip().endswith(":") is False and ": return" in text:
                body = text.split(":", 1)[1].strip()
            else:
                body = text
            nonret = None
            if not body.startswith("return"):
                try:
                    st0 = ast.parse(body).body[0]
                except SyntaxError:
                    st0 = None
                val0 = getattr(st0, "value", None)
                if isinstance(val0, ast.Call) and isinstance(val0.func, ast.Name) and sk.literal_of(val0.func.id).startswith(("HANDLER", "FALLTHROUGH")):
                    nonret = val0
            if nonret is not None:
                n += 1
                ctx.ob(f"{depgen.key}:emit:{short(e.arg, 40)}", depgen.loc(e.node), "dependent dispatcher hands over with `return <handler>(...)`", False, f"`{short(e.arg, 70)}` calls the handler without returning its value directly")
            elif body.startswith("return") and "(" in body:
                try:
                    val = ast.parse(body).body[0].value
                except SyntaxError:
                    raise AnalysisError(f"{depgen.loc(e.node)}: emitted line does not parse: {body!r}")
                n += 1
                ctx.ob(
                    f"{depgen.key}:emit:{sk.literal_of(body)[:48]}",
                    depgen.loc(e.node),
                    "dependent dispatcher hands over with `return <handler>(...)`",
                    isinstance(val, ast.Call),
                    f"`{short(e.arg, 70)}` does not return the handler's call directly",
                )
        # all hand-overs of the dependent dispatcher pass the same argument list (sibling cross-check)
        arglists = []
        for e in emissions(depgen.node):
            sk = e.skeleton
            for m in ast.walk(_safe_parse(sk)):
                if isinstance(m, ast.Call) and isinstance(m.func, ast.Name) and sk.literal_of(m.func.id).startswith(("HANDLER", "FALLTHROUGH")):
                    holes = tuple(h for a in m.args if isinstance(a, ast.Name) for h in sk.hole_of(a.id))
                    arglists.append((e, holes))
        ctx.require(len(arglists) >= 4, f"{depgen.key}: fewer hand-overs than the three strategies need")
        from collections import Counter

        major = Counter(h for _, h in arglists).most_common(1)[0][0]
        for e, holes in arglists:
            n += 1
            ctx.ob(
                f"{depgen.key}:args:{short(e.arg, 40)}",
                depgen.loc(e.node),
                f"this hand-over passes the same argument list as the other {len(arglists) - 1} hand-overs of the dependent dispatcher ({', '.join(major)})",
                holes == major,
                f"`{short(e.arg, 70)}` passes ({', '.join(holes)}) where its siblings pass ({', '.join(major)}): on this strategy keyword arguments are forwarded positionally (or dropped)",
            )

    from . import depgen as DG

    DG.with_fallback(ctx, ("pure-handover", "hand-over"), _dep_skeleton)
    n += 4
    # python-level hand-over sites
    sites = []
    for f in repo.all_funcs():
        if f.cls is oc and f.name in ("__call__", "next"):
            sites.append(f)
        if f.parent is not None and f.parent.module is oc.module and f.parent.cls is None and any(isinstance(c, ast.Call) and isinstance(c.func, ast.Attribute) and c.func.attr == A.build_method(repo).name for c in ast.walk(f.node)) and f.node.args.vararg:
            sites.append(f)  # the first-call trampoline
    ctx.require(len(sites) >= 3, f"expected __call__, next and the trampoline, found {[s.key for s in sites]}")
    for f in sites:
        ctx.touch(f)
        rets = [x for x in ast.walk(f.node) if isinstance(x, ast.Return) and x.value is not None]
        va = f.node.args.vararg.arg if f.node.args.vararg else None
        kwa = f.node.args.kwarg.arg if f.node.args.kwarg else None
        ok = bool(rets)
        why = ""
        for r in rets:
            v = r.value
            if not isinstance(v, ast.Call) or _enclosing_try(f.node, r) is not None:
                ok = False
                why = f"`{short(r, 60)}` does not return the call directly (or sits inside a try)"
                continue
            star = [a.value.id for a in v.args if isinstance(a, ast.Starred) and isinstance(a.value, ast.Name)]
            dstar = [k.value.id for k in v.keywords if k.arg is None and isinstance(k.value, ast.Name)]
            if va and va not in star:
                ok = False
                why = f"`{short(r, 60)}` does not forward *{va}"
            if kwa and kwa not in dstar:
                ok = False
                why = f"`{short(r, 60)}` does not forward **{kwa}"
            extra = [a for a in v.args if not isinstance(a, ast.Starred)] + [k for k in v.keywords if k.arg is not None]
            if extra:
                ok = False
                why = f"`{short(r, 60)}` adds or rewrites arguments"
        n += 1
        ctx.ob(f"{f.key}:forward-all", f.loc(rets[0]) if rets else f.loc(), "the hand-over returns the callee's call directly and forwards every positional and keyword argument it received", ok, why + ": arguments, results or errors are altered on the way")
    # closed inventory: resolution code never calls a handler
    multi = A.multimap(repo)
    res_funcs = list(lookup_path(ctx, multi)) + list(lookup_path(ctx, A.typemap(repo))) + [A.layer_sorter(repo), A.typeorder_fn(repo), A.subclasscheck_fn(repo)]
    for f in res_funcs:
        ctx.touch(f)
        handlerish = set()
        for a in ast.walk(f.node):
            if isinstance(a, (ast.Assign,)):
                if any((isinstance(x, ast.Attribute) and x.attr == "handler") or (isinstance(x, ast.Subscript) and dotted(x.value) in ("handlers", "self")) for x in ast.walk(a.value)):
                    for t in a.targets:
                        handlerish |= {x.id for x in ast.walk(t) if isinstance(x, ast.Name)}
            if isinstance(a, (ast.For, ast.comprehension)) and any(isinstance(x, ast.Name) and x.id == "handlers" for x in ast.walk(a.iter)):
                handlerish |= {x.id for x in ast.walk(a.target) if isinstance(x, ast.Name)}
        bad = [c for c in ast.walk(f.node) if isinstance(c, ast.Call) and ((isinstance(c.func, ast.Name) and c.func.id in handlerish) or (isinstance(c.func, ast.Attribute) and c.func.attr == "handler") or (isinstance(c.func, ast.Subscript) and dotted(c.func.value) in ("handlers", "self")))]
        n += 1
        ctx.ob(f"{f.key}:no-handler-call", f.loc(bad[0]) if bad else f.loc(), "resolution code never calls a registered method (errors are raised without running a method body)", not bad, f"`{short(bad[0], 60)}` runs a registered method during resolution" if bad else "")
    ctx.require(n >= 8, "hand-over inventory too small")


# ----------------------------------------------------------------- R2
def _skeleton_r2_one_name_three_roles(ctx, rule_filter=None):
    eg = entrygen(ctx)
    gen = eg.fi
    ctx.touch(gen)
    counter_ok_needed = []
    for lp in eg.param_loops:
        v = loop_var(lp)
        decl = _appends(lp, eg.args)
        fwd = _appends(lp, eg.posargs)
        key = _appends(lp, eg.lookup)
        lname = short(loop_iterable(lp), 20)
        # declaration on every path, naming only the loop variable
        from ..cfg import CFG

        ok_decl = bool(decl)
        for c, cond in decl:
            holes = {_strip_conv(h) for h in _frag(c.args[0]).holes.values()}
            if holes - {v}:
                ok_decl = False
        # all paths: either an unconditional append, or both branches of one if
        uncond = [c for c, cond in decl if not cond]
        if not uncond:
            ifs = {id(cond[0]) for c, cond in decl if cond}
            both = any(
                any(c in [x.value for x in st.body if isinstance(x, ast.Expr)] for c, _ in decl) and any(c in [x.value for x in st.orelse if isinstance(x, ast.Expr)] for c, _ in decl)
                for st in lp.body
                if isinstance(st, ast.If)
            )
            ok_decl = ok_decl and both
        ctx.ob(f"{gen.key}:loop[{lname}]:declares", gen.loc(lp), f"every iteration declares exactly the parameter `{v}` of that iteration", ok_decl, f"the loop over {lname} does not declare its own parameter on every path: a parameter is missing from (or misnamed in) the entry point's signature")
        if fwd or key:
            # positional / required keyword: forwarded and keyed from the same variable, unconditionally
            okf = len(fwd) == 1 and not fwd[0][1]
            okk = len(key) == 1 and not key[0][1]
            kind = None
            detail = ""
            if okf:
                sk = _frag(fwd[0][0].args[0])
                t = sk.text
                holes = [_strip_conv(h) for h in sk.holes.values()]
                if t == "__H0__" and holes == [v]:
                    kind = "pos"
                elif t == "__H0__=__H0__" and holes == [v]:
                    kind = "kw"
                else:
                    okf = False
                    detail = f"forwarded fragment `{short(fwd[0][0].args[0], 40)}` is not `{v}` / `{v}={v}`"
            if okk and kind:
                sk = _frag(key[0][0].args[0])
                try:
                    e = sk.tree.body[0].value
                except (AnalysisError, IndexError, AttributeError):
                    e = None
                if kind == "pos":
                    good = isinstance(e, ast.Call) and len(e.args) == 1 and isinstance(e.args[0], ast.Name) and sk.hole_of(e.args[0].id) == [v] and isinstance(e.func, ast.Name)
                    sel = sk.hole_of(e.func.id) if good else []
                    good = good and len(sel) == 1 and "(" in sel[0]
                    if good:
                        counter_ok_needed.append((lp, sel[0][sel[0].index("(") + 1 : -1].strip()))
                else:
                    good = isinstance(e, ast.Tuple) and len(e.elts) == 2 and isinstance(e.elts[0], ast.Name) and sk.hole_of(e.elts[0].id) == [v + "!r"] and isinstance(e.elts[1], ast.Call) and len(e.elts[1].args) == 1 and isinstance(e.elts[1].args[0], ast.Name) and sk.hole_of(e.elts[1].args[0].id) == [v]
                    if good:
                        sel = sk.hole_of(e.elts[1].func.id) if isinstance(e.elts[1].func, ast.Name) else []
                        good = len(sel) == 1 and sel[0].endswith(f"({v})")
                if not good:
                    okk = False
                    detail = f"key fragment `{short(key[0][0].args[0], 50)}` does not key the argument `{v}` under its own position/name"
            ctx.ob(
                f"{gen.key}:loop[{lname}]:forwards-and-keys",
                gen.loc(lp),
                f"in the same iteration `{v}` is forwarded ({'as ' + v + '=' + v if kind == 'kw' else 'positionally'}) and its lookup element is built from `{v}`",
                okf and okk and kind is not None,
                (detail or f"the loop over {lname} does not both forward and key its parameter exactly once per iteration") + ": the method is selected on one argument and called with another (or without it)",
            )
        else:
            # optional keyword: forwarded only when supplied, into KWARGS / TARGS
            ems = [e for e in emissions(ast.Module(body=lp.body, type_ignores=[])) if e.sink not in (eg.args,)]
            texts = [(e, e.skeleton) for e in ems if e.skeleton.holes]
            guard = [e for e, sk in texts if sk.text.strip().startswith("if ") and "is not MISSING" in sk.text]
            kwst = [e for e, sk in texts if "KWARGS[" in sk.text]
            tg = [e for e, sk in texts if "TARGS.append" in sk.text]
            ok = len(guard) == 1 and len(kwst) == 1 and len(tg) == 1
            if ok:
                ok = [_strip_conv(h) for h in guard[0].skeleton.holes.values()] == [v]
                sk = kwst[0].skeleton
                st = sk.tree.body[0]
                ok = ok and isinstance(st, ast.Assign) and isinstance(st.targets[0], ast.Subscript) and sk.hole_of(st.targets[0].slice.id) == [v + "!r"] and isinstance(st.value, ast.Name) and sk.hole_of(st.value.id) == [v]
                ok = ok and kwst[0].skeleton.text.startswith("    ") and tg[0].skeleton.text.startswith("    ")
                sk = tg[0].skeleton
                call = sk.tree.body[0].value
                tup = call.args[0] if isinstance(call, ast.Call) and call.args else None
                ok = ok and isinstance(tup, ast.Tuple) and len(tup.elts) == 2 and sk.hole_of(tup.elts[0].id) == [v + "!r"] and isinstance(tup.elts[1], ast.Call) and sk.hole_of(tup.elts[1].args[0].id) == [v]
                # guard precedes the two stores
                order = [e.node.lineno for e in (guard[0], kwst[0], tg[0])]
                ok = ok and order[0] < min(order[1:])
            ctx.ob(
                f"{gen.key}:loop[{lname}]:optional-keyword",
                gen.loc(lp),
                f"an optional keyword `{v}` is forwarded (KWARGS[{v!r}] = {v}) and keyed (TARGS) only under `{v} is not MISSING`",
                ok,
                "an optional keyword is forwarded or keyed when it was not supplied (the method would receive the MISSING placeholder instead of its own default), or dropped when it was",
            )
    # the running position counter
    names = {c for _, c in counter_ok_needed}
    ordered = sorted(counter_ok_needed, key=lambda x: x[0].lineno)
    for cn in names:
        loops = [lp for lp, c in ordered if c == cn]
        ok = True
        why = ""
        for k, lp in enumerate(loops):
            idx_of_enum = isinstance(lp.target, ast.Tuple) and lp.target.elts[0].id == cn
            if idx_of_enum:
                it = lp.iter
                start = it.args[1] if len(it.args) > 1 else next((kw.value for kw in it.keywords if kw.arg == "start"), None)
                if k == 0:
                    if start is not None and not (isinstance(start, ast.Constant) and start.value == 0):
                        ok, why = False, "the first positional loop does not start at position 0"
                else:
                    if start is None or (isinstance(start, ast.Constant) and start.value == 0):
                        ok, why = False, f"the loop over {short(loop_iterable(lp), 20)} restarts its positions at 0 although positional parameters precede it"
            else:
                inc = any(isinstance(s, ast.AugAssign) and dotted(s.target) == cn and isinstance(s.op, ast.Add) and isinstance(s.value, ast.Constant) and s.value.value == 1 for s in lp.body)
                if not inc:
                    ok, why = False, f"`{cn}` is not advanced in the loop over {short(loop_iterable(lp), 20)}"
        running = [lp for lp in loops if not (isinstance(lp.target, ast.Tuple) and lp.target.elts[0].id == cn)]
        if running:
            first = min(lp.lineno for lp in loops)
            last = max(lp.end_lineno for lp in loops)
            assigns = [s for s in all_stmts(gen.node) if isinstance(s, ast.Assign) and any(dotted(t) == cn for t in s.targets)]
            init0 = [s for s in assigns if s.lineno < first and isinstance(s.value, ast.Constant) and s.value.value == 0]
            between = [s for s in assigns if first <= s.lineno <= last]
            if not init0 or between:
                ok, why = False, f"`{cn}` does not start at 0 or is reset between the positional loops"
        ctx.ob(
            f"{gen.key}:position-counter:{cn}",
            gen.loc(loops[0]),
            f"the position `{cn}` used to choose the key function starts at 0 and advances once per positional parameter across the positional loops",
            ok,
            (why or "the position counter is wrong") + ": the key function is chosen for another position than the parameter's real one, so a type-valued argument after a strictly positional prefix is keyed by its metaclass",
        )
    if len({c for _, c in counter_ok_needed}) > 1 and len(counter_ok_needed) > 1:
        # different counters in different positional loops: each must still continue the previous one
        for k, (lp, cn) in enumerate(ordered):
            if k == 0:
                continue
            if isinstance(lp.target, ast.Tuple) and lp.target.elts[0].id == cn:
                it = lp.iter
                start = it.args[1] if len(it.args) > 1 else next((kw.value for kw in it.keywords if kw.arg == "start"), None)
                if start is None or (isinstance(start, ast.Constant) and start.value == 0):
                    ctx.ob(f"{gen.key}:position-counter:{cn}:continues", gen.loc(lp), "a later positional loop continues the positions of the earlier ones", False, f"the loop over {short(loop_iterable(lp), 20)} restarts its positions at 0")
    # the collected optional keywords reach the call
    gen_src_ok = True
    tails = []
    for st in all_stmts(gen.node):
        if isinstance(st, ast.Expr) and isinstance(st.value, ast.Call) and isinstance(st.value.func, ast.Attribute) and st.value.func.attr == "append" and dotted(st.value.func.value) in (eg.posargs, eg.lookup) and isinstance(st.value.args[0], ast.Name) and not any(st in ast.walk(lp) for lp in eg.param_loops):
            var = st.value.args[0].id
            vals = {s.value.value for s in ast.walk(gen.node) if isinstance(s, ast.Assign) and any(dotted(t) == var for t in s.targets) and isinstance(s.value, ast.Constant)}
            tails.append((dotted(st.value.func.value), vals))
    want = {eg.posargs: "**KWARGS", eg.lookup: "*TARGS"}
    ok = all(any(l == k and w in vals for l, vals in tails) for k, w in want.items())
    ctx.ob(
        f"{gen.key}:optional-keywords-spread",
        gen.loc(),
        "the optional keywords collected in KWARGS / TARGS are spread into the call (**KWARGS) and the lookup (*TARGS)",
        ok,
        "supplied optional keywords are collected but never reach the lookup key or the call",
    )


# ----------------------------------------------------------------- R3
def _slices(e, listname):
    """Decompose `x[:A] + x[N:]` into (prefix upper bounds, tail lower bounds); None if another shape."""
    parts = []

    def rec(x):
        if isinstance(x, ast.BinOp) and isinstance(x.op, ast.Add):
            rec(x.left)
            rec(x.right)
        else:
            parts.append(x)

    rec(e)
    pre, tail, whole = [], [], False
    for p in parts:
        if isinstance(p, ast.Name) and p.id == listname:
            whole = True
        elif isinstance(p, ast.Subscript) and dotted(p.value) == listname and isinstance(p.slice, ast.Slice) and p.slice.step is None:
            if p.slice.lower is None and p.slice.upper is not None:
                pre.append(p.slice.upper)
            elif p.slice.upper is None and p.slice.lower is not None:
                tail.append(p.slice.lower)
            else:
                return None
        else:
            return None
    return pre, tail, whole


def _skeleton_r3_early_exits(ctx):
    eg = entrygen(ctx)
    gen = eg.fi
    ctx.touch(gen)
    diff = eg.init_len.get(eg.posargs, 0) - eg.init_len.get(eg.lookup, 0)
    early = [(c, lp) for c, lp in eg.format_calls if lp is not None]
    ctx.require(early, "no early-exit call site (one per omitted optional positional) found")
    for c, lp in early:
        kw = {k.arg: k.value for k in c.keywords}
        le = kw.get(eg.f_lookup)
        pe = kw.get(eg.f_posargs)
        la = le.args[0] if isinstance(le, ast.Call) and le.args else le
        pa = pe.args[0] if isinstance(pe, ast.Call) and pe.args else pe
        ls = _slices(la, eg.lookup) if la is not None else None
        ps = _slices(pa, eg.posargs) if pa is not None else None
        ctx.require(ls is not None and ps is not None, f"{gen.loc(c)}: early-exit slices have a shape the analysis does not understand: {short(c, 80)}")
        # (i) prefixes differ by the self slot
        ok_i = len(ls[0]) == 1 and len(ps[0]) == 1
        if ok_i:
            lb, lk = _split_offset(ls[0][0])
            pb, pk = _split_offset(ps[0][0])
            ok_i = src(lb) == src(pb) and pk - lk == diff
        ctx.ob(
            f"{gen.key}:early-exit:prefix-alignment",
            gen.loc(c),
            f"the early exit looks up and forwards the same leading positionals (forwarded slice end = lookup slice end + {diff} for the self slot)",
            ok_i,
            f"`{short(c, 90)}` keys on a different number of positionals than it forwards: the method is chosen for one argument list and called with another",
        )
        # (ii) keyword part included on both sides
        ok_ii = len(ls[1]) == 1 and len(ps[1]) == 1
        if ok_ii:
            lb, lk = _split_offset(ls[1][0])
            pb, pk = _split_offset(ps[1][0])
            ok_ii = src(lb) == src(pb) and pk - lk == diff
            # the boundary is the positional count recorded after the positional loops
            bname = dotted(lb)
            defs = [s for s in all_stmts(gen.node) if isinstance(s, ast.Assign) and any(dotted(t) == bname for t in s.targets)]
            pos_loops = [l for l in eg.param_loops if _appends(l, eg.posargs) and _frag(_appends(l, eg.posargs)[0][0].args[0]).text == "__H0__"]
            kw_loops = [l for l in eg.param_loops if l not in pos_loops]
            ok_ii = ok_ii and len(defs) == 1 and all(l.end_lineno < defs[0].lineno for l in pos_loops) and all(defs[0].lineno < l.lineno for l in kw_loops)
        if ok_ii:
            # the lists are complete (spread elements appended) before the early exits slice them
            cfgg = cfg_of(ctx, gen)
            spreads = [
                st
                for st in all_stmts(gen.node)
                if isinstance(st, ast.Expr) and isinstance(st.value, ast.Call) and isinstance(st.value.func, ast.Attribute) and st.value.func.attr == "append" and dotted(st.value.func.value) in (eg.posargs, eg.lookup) and isinstance(st.value.args[0], ast.Name) and not any(st in ast.walk(l) for l in eg.param_loops)
            ]
            ok_ii = len(spreads) >= 2 and all(cfgg.dominated_by(cfgg.node_of(lp), [cfgg.node_of(sp)]) for sp in spreads)
        ctx.ob(
            f"{gen.key}:early-exit:{'keeps' if ok_ii else 'drops'}-keywords",
            gen.loc(c),
            "the early exit for an omitted optional positional still looks up and forwards every keyword element",
            ok_ii,
            f"`{short(c, 90)}` cuts the lookup and the forwarded arguments after the leading positionals: keyword arguments the caller supplied are dropped and an applicable method is rejected with 'No method'",
        )


# ----------------------------------------------------------------- R5
def r5_one_derivation_of_is_method(ctx):
    repo = ctx.repo
    n = 0
    for f in repo.all_funcs():
        for c in ast.walk(f.node):
            if isinstance(c, ast.Compare) and any(isinstance(x, ast.Constant) and x.value in ("self", ["self"]) for x in ast.walk(c)) or (isinstance(c, ast.Compare) and any(isinstance(x, ast.List) and len(x.elts) == 1 and isinstance(x.elts[0], ast.Constant) and x.elts[0].value == "self" for x in ast.walk(c))):
                if f.cls is A.signature_class(repo):
                    n += 1
                    ctx.touch(f)
                    ctx.ob(f"{f.key}:is-method-source", f.loc(c), "the signature analysis derives 'is a method' from the first parameter's name", True)
                    continue
                # a second derivation: must not index a possibly empty parameter list
                idx = [x for x in ast.walk(c) if isinstance(x, ast.Subscript) and isinstance(x.slice, ast.Constant) and isinstance(x.slice.value, int) and isinstance(x.value, ast.Attribute) and x.value.attr in ("args", "kwonlyargs", "parameters")]
                n += 1
                ctx.touch(f)
                ctx.ob(
                    f"{f.key}:is-method-rederived",
                    f.loc(c),
                    "a consumer that re-derives 'is a method' tolerates methods without positional parameters",
                    not idx,
                    f"`{short(c, 60)}` indexes the positional parameter list: a method whose parameters are all keyword-only crashes the dispatcher with IndexError",
                )
    # consumers through the analysis
    users = []
    for f in repo.all_funcs():
        if any(isinstance(x, ast.Attribute) and x.attr == "is_method" and isinstance(x.ctx, ast.Load) for x in ast.walk(f.node)):
            users.append(f)
    for f in users:
        n += 1
        ctx.touch(f)
        ctx.ob(f"{f.key}:is-method-from-analysis", f.loc(), "self is threaded according to the signature analysis' is_method", True)
    ctx.require(n >= 3, "expected the generator, the rewriter and the dependent wrapper to thread self")


def _with_fallback(ctx, laws, fallback, configs=None):
    """Decide on the abstractly executed entry point; if the generator uses a construct the interpreter does not
    model, fall back to reading its emission skeleton."""
    from . import entrygen

    n0 = len(ctx.obs)
    try:
        entrygen.law(ctx, *laws, configs=configs)
    except AnalysisError as e:
        del ctx.obs[n0:]
        from .common import run_fallback

        run_fallback(ctx, fallback, e, "entry-point generator")


def r2_one_name_three_roles(ctx, rule_filter=None):
    _with_fallback(ctx, ("signature", "full-call", "optional-keywords", "key-functions", "per-call-state"), _skeleton_r2_one_name_three_roles)


def r3_early_exits(ctx):
    _with_fallback(ctx, ("early-exits", "call-shapes"), _skeleton_r3_early_exits)


def r4(ctx):
    from .c09 import copy_carries_everything

    copy_carries_everything(ctx)


def r6_filter_not_stricter(ctx):
    from .c01 import r2_arity_keyword_filter

    r2_arity_keyword_filter(ctx, strict_extra=True)


def r8_rewritten_sites_pass_arguments_intact(ctx):
    from .rewriter import law_each_argument_once, law_self_first

    law_each_argument_once(ctx)
    law_self_first(ctx)


def r7_signature_analysis(ctx):
    from . import arganal

    arganal.law(ctx, "required-iff-everywhere", "partition", "conflicts-rejected", "is-method")


RULES = [
    ("C03.R7", "P1", r7_signature_analysis, "the signature analysis requires a parameter only where every method does (abstract execution of the analyser)"),
    ("C03.R8", "P1", r8_rewritten_sites_pass_arguments_intact, "rewritten recurse/call_next sites pass exactly the arguments written"),
    ("C03.R1", "P1", r1_pure_handover, "pure hand-over"),
    ("C03.R2", "P1", r2_one_name_three_roles, "one name, three roles"),
    ("C03.R3", "P1", r3_early_exits, "early exits forward everything supplied"),
    ("C03.R4", "P1", r4, "a copy carries everything"),
    ("C03.R5", "P1", r5_one_derivation_of_is_method, "one derivation of 'is a method'"),
    ("C03.R6", "P1", r6_filter_not_stricter, "the applicability filter rejects only for arity / missing keyword"),
]
