"""C16 - variants and mixins never disturb their parents."""

import ast

from .. import anchors as A
from ..cfg import all_stmts
from ..effects import MUTATORS, stmt_calls
from ..model import AnalysisError, call_name, dotted, is_self_attr, short
from .common import (
    TABLE_ATTRS,
    iter_base,
    cfg_of,
    method_table_writers,
    recv_name,
    stmts_calling_self,
)


def _guard_nodes(ctx, m):
    g = A.guard_method(ctx.repo)
    cfg = cfg_of(ctx, m)
    return [cfg.node_of(st) for st in stmts_calling_self(m.node, g.name, recv_name(m))]


def _in_class_callers(ctx, oc, target):
    """(method, stmt) where self.<target>() is called or referenced (partial(self.target, ...))."""
    out = []
    for m in oc.methods.values():
        rv = recv_name(m)
        for st in all_stmts(m.node):
            if isinstance(st, (ast.FunctionDef, ast.AsyncFunctionDef, ast.ClassDef)):
                continue
            hit = False
            for n in ast.walk(st) if not hasattr(st, "body") else []:
                if is_self_attr(n, target, selfname=rv):
                    hit = True
            if not hit and hasattr(st, "body"):
                from ..cfg import header_exprs

                for e in header_exprs(st):
                    for n in ast.walk(e):
                        if is_self_attr(n, target, selfname=rv):
                            hit = True
            if hit:
                out.append((m, st))
    return out


def _guarded(ctx, oc, m, stmt, depth=0):
    """Is `stmt` of method m dominated by a guard call, directly or through all callers of a private helper?"""
    cfg = cfg_of(ctx, m)
    n = cfg.node_of(stmt)
    if n is None:
        raise AnalysisError(f"statement at line {stmt.lineno} of {m.key} has no CFG node")
    if cfg.dominated_by(n, [g for g in _guard_nodes(ctx, m) if g is not None]):
        return True
    if depth < 3 and m.name.startswith("_") and not m.name.startswith("__"):
        callers = [(cm, st) for cm, st in _in_class_callers(ctx, oc, m.name) if cm is not m]

        def escapes(cm, st):
            """the helper is handed out as a value there (partial(self.helper, ..), a callback): it runs later, when
            the guard that was passed at that moment says nothing any more"""
            rvc = recv_name(cm)
            called = {id(c.func) for c in ast.walk(st) if isinstance(c, ast.Call)}
            return any(is_self_attr(n, m.name, selfname=rvc) and id(n) not in called for n in ast.walk(st))

        if callers and all(not escapes(cm, st) and _guarded(ctx, oc, cm, st, depth + 1) for cm, st in callers):
            return True
    return False


def r1_guard_dominates_mutation(ctx):
    oc = A.function_class(ctx.repo)
    g = A.guard_method(ctx.repo)
    ctx.touch(g)
    writers = method_table_writers(ctx)
    ctx.require(writers, "no method of the function class writes the method table or mixin list")
    for m, w, st in writers:
        ctx.touch(m)
        ok = _guarded(ctx, oc, m, st)
        ctx.ob(
            f"{m.key}:{w.attr}",
            m.loc(st),
            f"write to `{w.attr}` ({short(w.node, 50)}) is dominated by a call to {g.name}()",
            ok,
            f"`{short(st, 70)}` modifies {w.attr} on a path that never called {g.name}(): a locked parent can be changed and drift from its built children",
        )


def _mixins_loops(m):
    rv = recv_name(m)
    return [
        n
        for n in ast.walk(m.node)
        if isinstance(n, ast.For) and is_self_attr(iter_base(n.iter), "mixins", selfname=rv) and isinstance(n.target, ast.Name)
    ]


def effective_readers(ctx):
    """-> (reader, names): the method of the function class that merges the mixins' tables with the own one (it
    iterates `self.mixins` in whatever form - a loop, a comprehension, a generator handed to chain() -, reads
    `self._defns`, returns a value, is no mutator and writes neither table), and the names under which the merged view can be
    read: the reader itself and the methods / properties that only return a call of it."""
    from ..effects import func_writes

    oc = A.function_class(ctx.repo)
    readers = []
    for m in oc.methods.values():
        if m.name == "__init__":
            continue
        rv = recv_name(m)
        iterates = any(
            (isinstance(n, ast.For) and is_self_attr(iter_base(n.iter), "mixins", selfname=rv)) or (isinstance(n, ast.comprehension) and is_self_attr(iter_base(n.iter), "mixins", selfname=rv))
            for n in ast.walk(m.node)
        )
        guard_name = A.guard_method(ctx.repo).name
        is_mutator = any(isinstance(x, ast.Call) and is_self_attr(x.func, guard_name, selfname=rv) for x in ast.walk(m.node))
        writes_tables = any(w.attr in ("_defns", "mixins") for w in func_writes(m.node, rv))
        if iterates and any(is_self_attr(x, "_defns", selfname=rv) for x in ast.walk(m.node)) and any(isinstance(x, ast.Return) and x.value is not None for x in ast.walk(m.node)) and not is_mutator and not writes_tables:
            readers.append(m)
    if len(readers) != 1:
        raise AnalysisError(f"effective-table reader not found ({[m.name for m in readers]})")
    rd = readers[0]
    names = {rd.name}
    changed = True
    while changed:
        changed = False
        for m in oc.methods.values():
            if m.name in names:
                continue
            rv = recv_name(m)
            body = [st for st in m.node.body if not (isinstance(st, ast.Expr) and isinstance(st.value, ast.Constant))]
            if len(body) == 1 and isinstance(body[0], ast.Return) and body[0].value is not None:
                v = body[0].value
                v = v.func if isinstance(v, ast.Call) and not v.args and not v.keywords else v
                if is_self_attr(v, selfname=rv) and v.attr in names:
                    names.add(m.name)
                    changed = True
    return rd, names


def _mechanism_or_violation(ctx, getter, construct, text, detail):
    """An anchor that vanished because the mechanism itself was deleted is a violation of the rule that needs it,
    not an analysis error."""
    try:
        return getter(ctx.repo)
    except AnalysisError as e:
        if "found 0" not in str(e):
            raise
        oc = A.function_class(ctx.repo)
        ctx.ob(f"{oc.key}:{construct}", oc.loc(), text, False, detail)
        return None


def r2_lock_closure(ctx):
    repo = ctx.repo
    oc = A.function_class(repo)
    lock = _mechanism_or_violation(ctx, A.lock_method, "no-lock-method", "some method raises the lock flag", "no method ever sets `_locked = True`: ancestors of a built child are never locked and drift from it silently")
    if lock is None:
        return
    build = A.build_method(repo)
    ctx.touch(lock, build)
    # read closure: the effective table recurses through mixins
    rd, view_names = effective_readers(ctx)
    rdv = recv_name(rd)
    targets = set()
    for n in ast.walk(rd.node):
        if isinstance(n, (ast.For, ast.comprehension)) and is_self_attr(iter_base(n.iter), "mixins", selfname=rdv) and isinstance(n.target, ast.Name):
            targets.add(n.target.id)
    recursive = any(isinstance(n, ast.Attribute) and n.attr in view_names and isinstance(n.value, ast.Name) and n.value.id in targets for n in ast.walk(rd.node))
    readers = [rd] if recursive else []
    ctx.require(readers, "no method reads the effective method table recursively through mixins")
    ctx.touch(*readers)
    # (a) lock recurses over every mixin, unconditionally
    cfg = cfg_of(ctx, lock)
    rec_calls = []
    for lp in _mixins_loops(lock):
        for st in all_stmts(ast.Module(body=lp.body, type_ignores=[])) if False else lp.body:
            pass
        for n in ast.walk(lp):
            if isinstance(n, ast.Call) and isinstance(n.func, ast.Attribute) and n.func.attr == lock.name and dotted(n.func.value) == lp.target.id:
                rec_calls.append((lp, n))
    ok = False
    for lp, call in rec_calls:
        # unconditional within the loop body: the call statement is a direct child of the loop body
        if any(call in list(ast.walk(st)) and isinstance(st, ast.Expr) for st in lp.body):
            # and the loop is on every normal path of lock
            ln = cfg.node_of(lp)
            if cfg.must_reach(cfg.entry, [ln]):
                ok = True
    ctx.ob(
        f"{lock.key}:transitive",
        lock.loc(),
        f"{lock.name}() locks every function the effective table reads through (recurses over self.mixins)",
        ok,
        f"{readers[0].name} reads ancestors recursively through mixins but {lock.name}() marks only its receiver: a grandparent of a built child stays open and drifts",
    )
    # (b) the build reaches, on every normal path, a walk over the parents in which each parent is
    #     either locked or (linked-back case) walked through
    flag_stmts = [
        st
        for st in all_stmts(build.node)
        if isinstance(st, ast.Assign) and any(is_self_attr(t, "_compiled") for t in st.targets)
    ]
    walkers = _parent_walkers(ctx, oc, lock)
    bcfg = cfg_of(ctx, build)
    brv = recv_name(build)
    start_nodes = []
    for st in all_stmts(build.node):
        if isinstance(st, ast.For) and any(st is lp for lp in _mixins_loops(build)) and build in walkers:
            start_nodes.append(bcfg.node_of(st))
        elif not isinstance(st, (ast.FunctionDef, ast.ClassDef)):
            for c in stmt_calls(st):
                if is_self_attr(c.func, selfname=brv) and any(w.name == c.func.attr for w in walkers):
                    start_nodes.append(bcfg.node_of(st))
    ok_b = bool(start_nodes) and bcfg.must_reach(bcfg.entry, start_nodes)
    ctx.ob(
        f"{build.key}:locks-parents",
        build.loc(),
        "every normal path of the build walks the parents (lock or linked walk-through) before it completes",
        ok_b,
        "the build can complete without locking the functions it was derived from",
    )
    for w in walkers:
        ctx.touch(w)
        problems = _walker_by_interpretation(ctx, oc, lock, w)
        if problems is not None:
            ctx.ob(
                f"{w.key}:every-parent",
                w.loc(),
                f"{w.name}() interpreted on 7 derivation graphs (two-level chains with every mix of linked and plain edges, a fork, a diamond): exactly the ancestors the built child does not follow are locked, the linked ones stay open",
                not problems,
                "; ".join(problems[:2]),
            )
            continue
        wc = cfg_of(ctx, w)
        if not _mixins_loops(w):
            raise AnalysisError(f"{w.key}: the walk over the parents is neither interpretable nor a loop over self.mixins")
        for lp in _mixins_loops(w):
            var = lp.target.id
            good_stmts = []
            for st in all_stmts(ast.FunctionDef(name="_", args=w.node.args, body=lp.body, decorator_list=[], lineno=lp.lineno)):
                if isinstance(st, ast.Expr) and isinstance(st.value, ast.Call) and isinstance(st.value.func, ast.Attribute):
                    f = st.value.func
                    if dotted(f.value) == var and f.attr in {lock.name} | {x.name for x in walkers}:
                        good_stmts.append(st)
            if not good_stmts:
                continue
            good = [wc.node_of(s) for s in good_stmts]
            head = wc.node_of(lp)
            first = wc.node_of(lp.body[0])
            # every path through one iteration (body entry -> back to the head) passes a good call
            reach = wc.reachable(first, avoiding=set(good), strict=False)
            ok_w = head not in reach and (first in good or True)
            if first in good:
                ok_w = True
            ctx.ob(
                f"{w.key}:every-parent",
                w.loc(lp),
                f"each iteration over self.mixins locks the parent or walks through it ({', '.join(sorted({short(s, 40) for s in good_stmts}))})",
                ok_w,
                "a parent reached through a linked-back edge is skipped entirely: the unlinked ancestors above it stay open although the built child never sees their changes",
            )


def _parent_walkers(ctx, oc, lock):
    """Methods (other than lock) that call <parent>.lock() on something other than their receiver: the walk over
    the parents, as a loop over self.mixins, a recursion or a work list."""
    out = []
    for m in oc.methods.values():
        if m is lock:
            continue
        rv = recv_name(m)
        for n in ast.walk(m.node):
            if isinstance(n, ast.Call) and isinstance(n.func, ast.Attribute) and n.func.attr == lock.name and isinstance(n.func.value, ast.Name) and n.func.value.id != rv:
                if m not in out:
                    out.append(m)
    ctx.require(out, f"no method walks the parents calling {lock.name}() on them")
    return out


def _walker_by_interpretation(ctx, oc, lock, w):
    """Interpret the parents walk on small derivation graphs (chains of two levels with every mix of linked and plain
    edges, a fork, a diamond): -> problems, or None when the walk is not interpretable.  Reference: from the built
    child, an edge created with linkback (the child is in the parent's `children`) is walked through and the parent
    stays open; any other parent is locked with all its ancestors."""
    from ..metainterp import HostInterp, Instance, Raised

    raw = ctx.repo.raw_methods(oc)
    if w.name not in raw or lock.name not in raw or w.node.args.vararg or len(w.node.args.args) != 1:
        return None

    def graph(edges):
        nodes = {}
        for a, b, linked in edges:
            for x in (a, b):
                if x not in nodes:
                    o = Instance(oc.name, raw)
                    o.__dict__.update(mixins=[], children=[], _locked=False, linkback=False, name=x, _compiled=False, _defns={})
                    nodes[x] = o
        for a, b, linked in edges:
            nodes[a].mixins.append(nodes[b])
            if linked:
                nodes[b].children.append(nodes[a])
                nodes[a].linkback = True
        return nodes

    def reference(edges, start):
        up = {}
        for a, b, linked in edges:
            up.setdefault(a, []).append((b, linked))
        locked = set()

        def lock_all(n):
            if n in locked:
                return
            locked.add(n)
            for b, _ in up.get(n, []):
                lock_all(b)

        seen = set()

        def walk(n):
            if n in seen:
                return
            seen.add(n)
            for b, linked in up.get(n, []):
                if linked:
                    walk(b)
                else:
                    lock_all(b)

        walk(start)
        return locked

    L, N = True, False
    scenarios = {
        "leaf -linked-> mid -linked-> top": [("leaf", "mid", L), ("mid", "top", L)],
        "leaf -linked-> mid -plain-> top": [("leaf", "mid", L), ("mid", "top", N)],
        "leaf -plain-> mid -linked-> top": [("leaf", "mid", N), ("mid", "top", L)],
        "leaf -plain-> mid -plain-> top": [("leaf", "mid", N), ("mid", "top", N)],
        "a fork (linked a over plain c, plain b over linked d)": [("leaf", "a", L), ("leaf", "b", N), ("a", "c", N), ("b", "d", L)],
        "three linked levels over a plain root": [("leaf", "m1", L), ("m1", "m2", L), ("m2", "root", N)],
        "a diamond (linked a and b, a linked to top, b plain to top)": [("leaf", "a", L), ("leaf", "b", L), ("a", "top", L), ("b", "top", N)],
    }
    problems = []
    for label, edges in scenarios.items():
        nodes = graph(edges)
        hi = HostInterp(raw, nodes["leaf"], {}, globals_env={}, classes={}, functions={})
        try:
            hi.call_function(raw[w.name], [nodes["leaf"]], {}, {})
        except (AnalysisError, Raised, TypeError, AttributeError, KeyError, RecursionError):
            return None
        got = {k for k, o in nodes.items() if o._locked is True}
        want = reference(edges, "leaf")
        if got != want:
            extra, missing = sorted(got - want), sorted(want - got)
            what = []
            if extra:
                what.append(f"{', '.join(extra)} locked although every edge down to the built child is linked (its later changes can no longer reach the child: they raise instead)")
            if missing:
                what.append(f"{', '.join(missing)} left open although the child does not follow its changes")
            problems.append(f"[{label}] " + "; ".join(what))
    return problems


def _children_writer_by_interpretation(ctx, m, upd):
    """Interpret a method of the function class that links mixins (add_mixins) on two mixins and the function itself:
    -> list of problems, or None when the method is not of that shape / not interpretable."""
    from ..metainterp import HostFn, HostInterp, Raised, Record

    rv = recv_name(m)
    if m.node.args.vararg is None or len(m.node.args.args) != 1:
        return None
    guard = A.guard_method(ctx.repo)
    problems = []
    for linkback in (True, False):
        m1, m2 = Record(children=[], name="m1"), Record(children=[], name="m2")
        log = []
        me = Record(linkback=linkback, mixins=[], children=[], name="me")
        setattr(me, upd.name, HostFn(lambda *a: log.append("update")))
        setattr(me, guard.name, HostFn(lambda *a: log.append("guard")))
        conv = {f.name: (lambda x: x) for f in m.module.funcs.values() if f.parent is None and f.cls is None and len(f.params) == 1}
        hi = HostInterp({}, me, {}, globals_env=dict(conv), classes={}, functions={})
        try:
            hi.call_function(m.node, [me, m1, me, m2], {}, {})
        except (AnalysisError, Raised, TypeError, AttributeError):
            return None
        tag = "with linkback" if linkback else "without linkback"
        if [x for x in me.mixins] != [m1, m2]:
            problems.append(f"{tag} the mixin list becomes {[getattr(x, 'name', x) for x in me.mixins]} after adding m1, the function itself and m2")
        want = [me] if linkback else []
        for mx in (m1, m2):
            if mx.children != want:
                problems.append(f"{tag} {mx.name}.children is {[getattr(x, 'name', x) for x in mx.children]}")
        if me.children:
            problems.append(f"{tag} the function is recorded as its own child")
        if log[-1:] != ["update"] or log.count("update") != 1:
            problems.append(f"{tag} the update method is not run once, last (calls: {log})")
    return problems


def r3_linkback(ctx):
    repo = ctx.repo
    oc = A.function_class(repo)
    upd = _mechanism_or_violation(ctx, A.update_method, "no-update-method", "some method rebuilds a function that is already in use when it changes", "no method rebuilds an already built function (`if self._compiled: self.compile()`): changes made after first use are ignored")
    if upd is None:
        return
    ctx.touch(upd)
    # writer: children.append(self) under the linkback flag, for every mixin that is added
    writers = []
    for m in oc.methods.values():
        rv = recv_name(m)
        for n in ast.walk(m.node):
            if (
                isinstance(n, ast.Call)
                and isinstance(n.func, ast.Attribute)
                and n.func.attr == "append"
                and isinstance(n.func.value, ast.Attribute)
                and n.func.value.attr == "children"
                and len(n.args) == 1
                and dotted(n.args[0]) == rv
            ):
                writers.append((m, n))
    if not writers:
        ctx.ob(f"{oc.key}:no-children-writer", oc.loc(), "a derivation created with linkback records the child in its parents' `children`", False, "nothing ever appends to `children`: linkback derivations are never registered with their ancestors, so later changes to the ancestor do not show up in the child")
    from .common import enclosing_loops, path_atoms

    by_interp = {}
    for m, call in writers:
        if m.key not in by_interp:
            by_interp[m.key] = _children_writer_by_interpretation(ctx, m, upd)
    done = set()
    for m, call in writers:
        if by_interp.get(m.key) is not None and m.key not in done:
            done.add(m.key)
            problems = by_interp[m.key]
            ctx.touch(m)
            ctx.ob(
                f"{m.key}:children-writer",
                m.loc(call),
                "every added mixin (the function itself excepted) joins the mixin list and records the child in its `children` exactly when linkback is set (interpreted with and without linkback)",
                not problems,
                "; ".join(problems[:2]) + ": updates of a linked ancestor do not reach the child (or reach functions that were not linked)",
            )
    for m, call in writers:
        if m.key in done:
            continue
        ctx.touch(m)
        rv = recv_name(m)
        parent_var = dotted(call.func.value.value)
        loops = [lp for lp in enclosing_loops(m.node, call) if isinstance(lp, ast.For) and isinstance(lp.target, ast.Name) and lp.target.id == parent_var]
        added = None
        for n in ast.walk(m.node):
            if isinstance(n, ast.AugAssign) and is_self_attr(n.target, "mixins", selfname=rv):
                added = dotted(n.value)
            if isinstance(n, ast.Call) and isinstance(n.func, ast.Attribute) and n.func.attr in ("extend",) and is_self_attr(n.func.value, "mixins", selfname=rv) and n.args:
                added = dotted(n.args[0])
        ok = bool(loops) and added is not None and dotted(iter_base(loops[0].iter)) == added
        if loops and not ok:
            # the mixin is appended to the list one at a time in the loop that links it
            for n in ast.walk(loops[0]):
                if isinstance(n, ast.Call) and isinstance(n.func, ast.Attribute) and n.func.attr == "append" and is_self_attr(n.func.value, "mixins", selfname=rv) and len(n.args) == 1 and dotted(n.args[0]) == parent_var:
                    ok = True
        # the only condition on the way to the registration is the linkback flag
        conds = path_atoms(m.node, call)
        cond_ok = len(conds) == 1 and conds[0][0] == "truthy" and is_self_attr(conds[0][1], "linkback", selfname=rv)
        ctx.ob(
            f"{m.key}:children-writer",
            m.loc(call),
            "every added mixin records the child in its `children` exactly when linkback is set",
            ok and cond_ok,
            "the linkback registration does not cover every added mixin under the linkback flag: updates of a linked ancestor do not reach the child",
        )
    # reader: the update method propagates to every child on every normal path
    ucfg = cfg_of(ctx, upd)
    rv = recv_name(upd)
    loops = [
        n
        for n in ast.walk(upd.node)
        if isinstance(n, ast.For) and is_self_attr(iter_base(n.iter), "children", selfname=rv) and isinstance(n.target, ast.Name)
    ]
    ok = False
    loc = upd.loc()
    for lp in loops:
        loc = upd.loc(lp)
        direct = [
            st
            for st in lp.body
            if isinstance(st, ast.Expr)
            and isinstance(st.value, ast.Call)
            and isinstance(st.value.func, ast.Attribute)
            and st.value.func.attr == upd.name
            and dotted(st.value.func.value) == lp.target.id
        ]
        if direct and ucfg.must_reach(ucfg.entry, [ucfg.node_of(lp)]):
            ok = True
    ctx.ob(
        f"{upd.key}:children-reader",
        loc,
        f"{upd.name}() propagates to every entry of self.children on every normal path",
        ok,
        "a change to a linked-back ancestor is not propagated to its children: the child keeps dispatching over the old method set",
    )


FRESH_CALLS = ("copy",)


def r4_child_writes_nothing_of_parent(ctx):
    repo = ctx.repo
    oc = A.function_class(repo)
    try:
        lock = A.lock_method(repo)
        upd = A.update_method(repo)
    except AnalysisError:
        ctx.note("lock / update method missing: reported by R2 / R3")
        ctx.ob(f"{oc.key}:r4-skipped", oc.loc(), "ownership inventory needs the lock and update methods (their absence is reported by R2 / R3)", True)
        return
    walkers = _parent_walkers(ctx, oc, lock)
    allowed_calls = {lock.name, upd.name} | {w.name for w in walkers}
    mutating_api = set()
    for m, w, st in method_table_writers(ctx):
        mutating_api.add(m.name)
    mutating_api |= {"rename", "compile"}
    changed = True
    while changed:  # methods that delegate to a mutator are mutators
        changed = False
        for m in oc.methods.values():
            if m.name in mutating_api or m.name == "__init__":
                continue
            rvm = recv_name(m)
            if any(is_self_attr(x, selfname=rvm) and x.attr in mutating_api for x in ast.walk(m.node)):
                mutating_api.add(m.name)
                changed = True
    mutating_api -= {upd.name}
    init = oc.methods["__init__"]
    state_attrs = set(A.self_attrs_assigned(init.node, recv_name(init))) | {"map", "dispatch"}
    n_sites = 0
    for m in oc.methods.values():
        rv = recv_name(m)
        fresh = set()
        for st in all_stmts(m.node):
            if isinstance(st, ast.Assign) and isinstance(st.value, ast.Call):
                cn = call_name(st.value)
                if cn in (oc.name, f"{rv}.copy", f"{rv}.variant"):
                    for t in st.targets:
                        if isinstance(t, ast.Name):
                            fresh.add(t.id)
        for n in ast.walk(m.node):
            recv = None
            what = None
            if isinstance(n, (ast.Assign, ast.AugAssign, ast.AnnAssign)):
                tg = n.targets if isinstance(n, ast.Assign) else [n.target]
                for t in tg:
                    base = t
                    while isinstance(base, ast.Subscript):
                        base = base.value
                    if isinstance(base, ast.Attribute):
                        r = dotted(base.value)
                        if r and r != rv and not r.startswith(rv + ".") and base.attr in state_attrs:
                            recv, what = r, f"store to {short(t, 40)}"
            elif isinstance(n, ast.Call) and isinstance(n.func, ast.Attribute):
                f = n.func
                if isinstance(f.value, ast.Attribute) and f.attr in MUTATORS:
                    r = dotted(f.value.value)
                    if r and r != rv and not r.startswith(rv + ".") and f.value.attr in TABLE_ATTRS + ("children", "_locked", "_compiled"):
                        recv, what = r, f"{short(n, 50)}"
                        if f.value.attr == "children" and f.attr == "append" and len(n.args) == 1 and dotted(n.args[0]) == rv:
                            recv = None  # the linkback registration (R3)
                elif isinstance(f.value, ast.Name) and f.value.id != rv and f.attr in mutating_api and f.attr not in allowed_calls:
                    recv, what = f.value.id, short(n, 50)
            if recv is None:
                continue
            n_sites += 1
            ctx.touch(m)
            ok = recv.split(".")[0] in fresh
            ctx.ob(
                f"{m.key}:{recv}.{what.split('(')[0].split('.')[-1].strip()}",
                m.loc(n),
                f"`{what}` modifies an object created in this method (a fresh copy), not a parent or sibling",
                ok,
                f"`{what}` writes through `{recv}`, which is not a fresh object of this method: a derivation changes another function",
            )
    # copy() hands out a new object that has self among its mixins
    for name in FRESH_CALLS:
        m = oc.methods.get(name)
        ctx.require(m is not None, f"method {name} vanished from {oc.key}")
        ctx.touch(m)
        rv = recv_name(m)
        rets = [n for n in ast.walk(m.node) if isinstance(n, ast.Return) and n.value is not None]
        ok = bool(rets)
        for r in rets:
            v = r.value
            good = False
            if isinstance(v, ast.Call) and call_name(v) == oc.name:
                for kw in v.keywords:
                    val = kw.value
                    if isinstance(val, ast.Name) and val.id != rv:
                        # a local that is assigned once: look at what was assigned
                        defs = [st.value for st in all_stmts(m.node) if isinstance(st, ast.Assign) and any(isinstance(t, ast.Name) and t.id == val.id for t in st.targets)]
                        if len(defs) == 1:
                            val = defs[0]
                    if kw.arg == "mixins" and any(isinstance(e, ast.Name) and e.id == rv for e in ast.walk(val)):
                        good = True
            ok = ok and good
        ctx.ob(
            f"{m.key}:fresh-object",
            m.loc(),
            f"{name}() returns a newly constructed function that has the receiver among its mixins",
            ok,
            f"{name}() does not return a fresh function deriving from the receiver: registrations on the copy reach the original",
        )
        n_sites += 1
    # the overlay applies the own table last
    rd, _ = effective_readers(ctx)
    ctx.touch(rd)
    merged_view(ctx, rd)


def merged_view(ctx, rd):
    """Interpret the reader of the effective definitions on a function with two mixins and own definitions whose
    signatures overlap pairwise: own definitions win, then the later mixin, then the earlier one."""
    from ..metainterp import HostInterp, Raised, Record

    rv = recv_name(rd)
    m1 = Record(defns={"s1": "mixin1:s1", "s2": "mixin1:s2", "s5": "mixin1:s5"}, _defns={})
    m2 = Record(defns={"s2": "mixin2:s2", "s3": "mixin2:s3", "s5": "mixin2:s5"}, _defns={})
    me = Record(mixins=[m1, m2], _defns={"s3": "own:s3", "s4": "own:s4", "s5": "own:s5"}, children=[], linkback=False)
    # whatever else the constructor initialises with a literal (a change may add such attributes)
    init = rd.cls.methods.get("__init__") if rd.cls is not None else None
    if init is not None:
        rvi = recv_name(init)
        for st in ast.walk(init.node):
            if isinstance(st, ast.Assign) and len(st.targets) == 1 and is_self_attr(st.targets[0], selfname=rvi) and isinstance(st.value, ast.Constant) and not hasattr(me, st.targets[0].attr):
                setattr(me, st.targets[0].attr, st.value.value)
    want = {"s1": "mixin1:s1", "s2": "mixin2:s2", "s3": "own:s3", "s4": "own:s4", "s5": "own:s5"}
    interpreted = True
    try:
        got = HostInterp({}, me, {}, globals_env={}, classes={}, functions={}).call_function(rd.node, [me], {}, {})
    except (AnalysisError, Raised) as e:
        interpreted = False
        ctx.note(f"{rd.key} not interpretable ({e}); statement order checked instead")
    if interpreted:
        ok = isinstance(got, dict) and dict(got) == want
        bad = next(((k, got.get(k), want[k]) for k in want if not isinstance(got, dict) or got.get(k) != want[k]), None) if not ok else None
        untouched = m1.defns == {"s1": "mixin1:s1", "s2": "mixin1:s2", "s5": "mixin1:s5"} and me._defns == {"s3": "own:s3", "s4": "own:s4", "s5": "own:s5"}
        ctx.ob(
            f"{rd.key}:own-last",
            rd.loc(),
            "the effective table is: own definitions over the later mixin's over the earlier mixin's (interpreted on overlapping tables)",
            ok and untouched,
            (f"signature {bad[0]} resolves to {bad[1]!r} where {bad[2]!r} is due: a definition of lower precedence replaces one of higher precedence (an own override is shadowed by an inherited method, or an earlier mixin wins over a later one)" if bad else "the reader modifies the tables it reads"),
        )
        return
    cfg = cfg_of(ctx, rd)
    own = [
        st
        for st in all_stmts(rd.node)
        if not isinstance(st, (ast.For, ast.FunctionDef)) and any(is_self_attr(x, "_defns", selfname=rv) for x in ast.walk(st)) and not isinstance(st, ast.Return)
    ]
    loops = _mixins_loops(rd)
    ok = bool(own) and all(
        cfg.node_of(o) not in cfg.reachable(cfg.entry, avoiding=[cfg.node_of(lp) for lp in loops]) and
        cfg.node_of(lp) not in cfg.reachable(cfg.node_of(o))
        for o in own
        for lp in loops
    )
    ctx.ob(
        f"{rd.key}:own-last",
        rd.loc(),
        "the effective table overlays the own definitions after all inherited ones",
        ok,
        "inherited definitions are applied after the own ones: a parent's method replaces the child's override of identical signature",
    )


def merged_view_is_current(ctx, rd):
    """Interpret the reader of the effective definitions on a chain base -> mid -> leaf made without linkback (the
    objects are interpreted instances of the function class; their initial attributes are the constructor's literal
    assignments): after base's own table changed (and base ran its update method), reading leaf's effective table
    again shows the change."""
    from ..metainterp import HostInterp, Instance, Raised, Record

    repo = ctx.repo
    oc = A.function_class(repo)
    try:
        upd = A.update_method(repo)
    except AnalysisError:
        upd = None  # reported by the rule on mutators / linkback; the view is read without the notification
    b = A.build_method(repo)
    raw = repo.raw_methods(oc)
    init = raw.get("__init__")
    literals = {}
    if init is not None:
        rvi = init.args.args[0].arg
        for st in ast.walk(init):
            if isinstance(st, ast.Assign) and len(st.targets) == 1 and is_self_attr(st.targets[0], selfname=rvi):
                v = st.value
                if isinstance(v, ast.Constant):
                    literals[st.targets[0].attr] = ("const", v.value)
                elif isinstance(v, (ast.Dict, ast.List, ast.Set)) and not (getattr(v, "keys", None) or getattr(v, "elts", None)):
                    literals[st.targets[0].attr] = ("empty", type(v).__name__)

    def make(label, mixins, own):
        o = Instance(oc.name, raw)
        for k, (kind, v) in literals.items():
            o.__dict__[k] = v if kind == "const" else {"Dict": dict, "List": list, "Set": set}[v]()
        o.__dict__.update(mixins=list(mixins), _defns=dict(own), children=[], linkback=False, _compiled=False, _locked=False, name=label)
        return o

    base = make("base", [], {"s1": "base:s1"})
    mid = make("mid", [base], {"s2": "mid:s2"})
    leaf = make("leaf", [mid], {})
    funcs = {n: g.node for n, g in oc.module.funcs.items() if g.parent is None and g.cls is None and not g.node.decorator_list}
    hi = HostInterp(raw, leaf, {}, globals_env={}, classes={}, functions=funcs)
    is_prop = any(isinstance(d, ast.Name) and d.id in ("property", "cached_property") for d in rd.node.decorator_list)

    def read(o):
        return dict(hi.call_function(raw[rd.name], [o], {}, {}))

    try:
        first = read(leaf)
        read(mid)
        # base changes its own table the way registration / removal do, and runs its update method
        del base.__dict__["_defns"]["s1"]
        base.__dict__["_defns"]["s9"] = "base:s9"
        base.__dict__[b.name] = lambda *a, **k: None
        if upd is not None:
            hi.call_function(raw[upd.name], [base], {}, {})
        second = read(leaf)
    except (AnalysisError, Raised, TypeError, AttributeError, KeyError) as e:
        raise AnalysisError(f"{rd.key}: chain reading not interpretable: {e}")
    want1, want2 = {"s1": "base:s1", "s2": "mid:s2"}, {"s9": "base:s9", "s2": "mid:s2"}
    ctx.ob(
        f"{rd.key}:current",
        rd.loc(),
        "the effective table of a derived function reflects its ancestors' current tables on every read, also two levels up and without linkback (interpreted on base -> mid -> leaf)",
        first == want1 and second == want2,
        f"after base dropped s1 and added s9 (and ran its update method), leaf's effective table reads {second!r} instead of {want2!r}: a derived function that is put to use after its ancestor changed dispatches over the ancestor's old method set" if first == want1 else f"leaf's effective table reads {first!r}, expected {want1!r}",
    )


def _reaches_after(ctx, oc, m, stmt, target, depth=0):
    """Does every normal path from `stmt` in m reach a call self.<target>() - in m, or after m returns in every caller
    of a private helper?"""
    cfg = cfg_of(ctx, m)
    targets = [cfg.node_of(s) for s in stmts_calling_self(m.node, target, recv_name(m))]
    n = cfg.node_of(stmt)
    if targets and cfg.must_reach(n, targets):
        return True
    if depth < 3 and m.name.startswith("_") and not m.name.startswith("__"):
        callers = [(cm, st) for cm, st in _in_class_callers(ctx, oc, m.name) if cm is not m]
        if callers and all(_reaches_after(ctx, oc, cm, st, target, depth + 1) for cm, st in callers):
            return True
    return False


def r5_every_mutator_rebuilds(ctx, rule_note=""):
    oc = A.function_class(ctx.repo)
    upd = _mechanism_or_violation(ctx, A.update_method, "no-update-method", "some method rebuilds a function that is already in use when it changes", "no method rebuilds an already built function (`if self._compiled: self.compile()`): registrations made after first use are ignored")
    if upd is None:
        return
    writers = method_table_writers(ctx)
    ctx.require(writers, "no method-table writer found")
    seen = set()
    for m, w, st in writers:
        ctx.touch(m, upd)
        ok = _reaches_after(ctx, oc, m, st, upd.name)
        key = f"{m.key}:{w.attr}"
        if key in seen:
            continue
        seen.add(key)
        ctx.ob(
            key,
            m.loc(st),
            f"after writing `{w.attr}` every normal path reaches {upd.name}() (rebuild and propagate)",
            ok,
            f"`{short(st, 60)}` changes {w.attr} but a normal path returns without {upd.name}(): a function already in use keeps its old table",
        )


def r6_writers_read_own_table_only(ctx):
    """A method that writes the own method table must not read the effective (inherited) table: whatever it
    copies from there becomes the child's own and survives the parent's later changes."""
    oc = A.function_class(ctx.repo)
    # the effective-table reader(s): properties / methods that merge mixins' tables with the own one
    _, eff = effective_readers(ctx)
    seen = set()
    for m, w, st in method_table_writers(ctx):
        if w.attr != "_defns" or m.key in seen:
            continue
        seen.add(m.key)
        ctx.touch(m)
        rv = recv_name(m)
        reads = [x for x in ast.walk(m.node) if is_self_attr(x, selfname=rv) and x.attr in eff]
        ctx.ob(
            f"{m.key}:reads-own-table-only",
            m.loc(reads[0]) if reads else m.loc(),
            f"{m.name}() decides and stores from the own table only (never from the inherited view `{'/'.join(sorted(eff))}`)",
            not reads,
            f"`{short(reads[0], 30) if reads else ''}` is read while writing the own table: an inherited method is copied into the child's own table (e.g. pushed down below an override), where it outlives the parent's unregistration and shadows later changes",
        )
    ctx.require(seen, "no writer of the own method table")



def r7_linkback_request_reaches_the_flag(ctx):
    """What the caller asks for when deriving (`copy(linkback=True)`, `variant(linkback=True)`) is what the child is
    created with: the constructor stores its parameter in the flag unchanged, and a method of the function class that
    constructs a function hands its own parameter of that name over as it is (or forwards **kwargs)."""
    oc = A.function_class(ctx.repo)
    init = oc.methods.get("__init__")
    ctx.require(init is not None, f"{oc.key}: no constructor")
    rv = recv_name(init)
    # the flag: the attribute the children writer tests; here: the attribute stored from a constructor parameter of
    # the same name that some method reads in a test
    tested = set()
    for m in oc.methods.values():
        mrv = recv_name(m)
        for n in ast.walk(m.node):
            if isinstance(n, (ast.If, ast.IfExp)):
                tested |= {x.attr for x in ast.walk(n.test) if is_self_attr(x, selfname=mrv)}
    params = [a.arg for a in init.node.args.args + init.node.args.kwonlyargs]
    flags = []
    for st in all_stmts(init.node):
        if isinstance(st, ast.Assign) and len(st.targets) == 1 and is_self_attr(st.targets[0], selfname=rv) and st.targets[0].attr in tested and st.targets[0].attr in params:
            flags.append((st.targets[0].attr, st))
    flags = [(a, st) for a, st in flags if a in ("linkback",) or any(isinstance(c, ast.Call) and isinstance(c.func, ast.Attribute) and c.func.attr == "append" and isinstance(c.func.value, ast.Attribute) and c.func.value.attr == "children" for m in oc.methods.values() for t in ast.walk(m.node) if isinstance(t, ast.If) and any(is_self_attr(x, a, selfname=recv_name(m)) for x in ast.walk(t.test)) for c in ast.walk(t))]
    ctx.require(len(flags) == 1, f"{oc.key}: the flag that makes a derivation record itself with its parents was not found")
    flag, st = flags[0]
    ctx.touch(init)

    def unchanged(m, value, pname):
        """value is the method's parameter `pname`, never rebound in the method (bool(..) of it counts)"""
        v = value
        if isinstance(v, ast.Call) and call_name(v) == "bool" and len(v.args) == 1:
            v = v.args[0]
        if not (isinstance(v, ast.Name) and v.id == pname):
            return False
        return not any(isinstance(x, ast.Name) and x.id == pname and isinstance(x.ctx, ast.Store) for x in ast.walk(m.node))

    ctx.ob(
        f"{init.key}:{flag}-stored-as-asked",
        init.loc(st),
        f"the constructor stores its `{flag}` parameter in the flag unchanged",
        unchanged(init, st.value, flag),
        f"`{short(st, 60)}`: the child is not created with the linkback the caller asked for: a derivation asked to follow its ancestors either locks them at first use or silently stops following them",
    )
    n = 0
    for m in oc.methods.values():
        if m is init:
            continue
        mparams = [a.arg for a in m.node.args.args + m.node.args.kwonlyargs]
        for c in ast.walk(m.node):
            if not (isinstance(c, ast.Call) and (call_name(c) == oc.name or (isinstance(c.func, ast.Call) and call_name(c.func) == "type") or (isinstance(c.func, ast.Attribute) and c.func.attr == "__class__"))):
                continue
            if flag not in mparams:
                continue
            n += 1
            ctx.touch(m)
            kw = [k for k in c.keywords if k.arg == flag]
            ok = bool(kw) and unchanged(m, kw[0].value, flag)
            ctx.ob(
                f"{m.key}:{flag}-handed-over",
                m.loc(c),
                f"{m.name}() creates the derived function with the `{flag}` its caller asked for (`{short(c, 60)}`)",
                bool(ok),
                f"{m.name}() takes `{flag}` from its caller but creates the function with "
                + (f"`{short(kw[0].value, 40)}`" if kw else "none")
                + ": a derivation created with linkback is, in some states of the parent, not linked - the first use of the child locks the ancestors, and their later changes raise instead of showing up in the child",
            )
    ctx.require(n >= 1, f"{oc.key}: no method derives a function with a `{flag}` of its own")


RULES = [
    ("C16.R6", "P1", r6_writers_read_own_table_only, "writers of the own table read only the own table"),
    ("C16.R1", "P1", r1_guard_dominates_mutation, "guard dominates mutation"),
    ("C16.R2", "P1", r2_lock_closure, "lock closure covers read closure"),
    ("C16.R3", "P1", r3_linkback, "linkback: one writer, readers"),
    ("C16.R4", "P1", r4_child_writes_nothing_of_parent, "a child writes nothing of a parent"),
    ("C16.R5", "P1", r5_every_mutator_rebuilds, "every mutator rebuilds"),
    ("C16.R16", "P1", r7_linkback_request_reaches_the_flag, "the linkback a derivation is asked for is the linkback the child is created with"),
]
