"""The signature analysis (which parameters the generated entry point declares, which of them are required, which are
keyed by the type-valued key function), obtained by abstractly executing the argument analyser on symbolic method
sets, compared with what the properties prescribe.

The analyser class is interpreted by `metainterp.HostInterp`; nothing of /repo is imported or run.  A method is a
record listing its parameters (position / name / required / generic-alias annotation); the call that extracts a
signature from a function is replaced by the identity on those records.

Reference (C03: "a call reaches the method as written"; C14: type-valued arguments):
  * a parameter of the entry point is *required* iff every method declares it required - otherwise some method
    accepts the call that omits it, and the entry point must let the call through;
  * a position is a *named* positional iff it belongs to the maximal suffix of positions on whose single name all
    methods agree (those can be passed by keyword), the others are strictly positional;
  * names declared at different positions, or positional here and keyword-only there, are rejected;
  * each declared parameter appears in exactly one of the six lists;
  * a parameter is keyed by the type-valued key function iff some method annotates it with a generic alias.
"""

import ast
import collections
import itertools

from .. import anchors as A
from ..metainterp import HostFn, HostInterp, Instance, Raised, Record
from ..model import AnalysisError


class KeyFn(Record):
    def __init__(self, name):
        self.__name__ = name

    def __repr__(self):
        return f"<{self.__name__}>"


TYPE = KeyFn("type")
SUBTLER = KeyFn("subtler_type")


def P(position, name, required=True, complex_=False):
    return dict(position=position, name=name, required=required, complex=complex_)


# each method: (is_method, [parameters])
SCENARIOS = {
    "one-method": [(False, [P(0, "x"), P(1, "y", required=False)])],
    "optional-in-one": [(False, [P(0, "x"), P(1, "y", required=False)]), (False, [P(0, "x"), P(1, "y")])],
    "absent-in-one": [(False, [P(0, "x")]), (False, [P(0, "x"), P(1, "y")])],
    "required-everywhere": [(True, [P(0, "x"), P(1, "y")]), (True, [P(0, "x"), P(1, "y")]), (True, [P(0, "x"), P(1, "y")])],
    "different-names": [(False, [P(0, "a"), P(1, "b")]), (False, [P(0, "c"), P(1, "b", required=False)])],
    "positional-only": [(False, [P(0, None), P(1, "b")]), (False, [P(0, None, required=False), P(1, "b", required=False)])],
    "name-disagreement-in-the-middle": [(False, [P(0, "a"), P(1, "b"), P(2, "c")]), (False, [P(0, "a"), P(1, "z"), P(2, "c")])],
    "keywords": [(False, [P(0, "x"), P(None, "k"), P(None, "o", required=False)]), (False, [P(0, "x"), P(None, "k", required=False)])],
    "keyword-required-everywhere": [(True, [P(0, "x"), P(None, "k")]), (True, [P(0, "x"), P(None, "k")])],
    "generic-alias-annotations": [
        (False, [P(0, "x"), P(1, "y", complex_=True), P(None, "k", complex_=True), P(None, "j")]),
        (False, [P(0, "x"), P(1, "y"), P(None, "k"), P(None, "j")]),
    ],
    "generic-alias-positional-only": [(False, [P(0, None, complex_=True), P(1, "b")]), (False, [P(0, None), P(1, "b", complex_=True)])],
    "all-optional": [(False, [P(0, "x", required=False)]), (False, [P(0, "x", required=False), P(1, "y", required=False)])],
    "conflict-positions": [(False, [P(0, "x"), P(1, "y")]), (False, [P(0, "y"), P(1, "x")])],
    "conflict-positional-vs-keyword": [(False, [P(0, "x"), P(1, "y")]), (False, [P(0, "x"), P(None, "y")])],
}


def reference(methods):
    """-> dict of the six lists + complex keys, or 'reject'."""
    total = len(methods)
    by_name = collections.defaultdict(set)
    pos_names = collections.defaultdict(set)
    req = collections.Counter()
    decl = collections.Counter()
    cx = set()
    for _, params in methods:
        for p in params:
            canon = p["name"] if p["position"] is None else p["position"]
            if p["position"] is not None:
                pos_names[p["position"]].add(p["name"])
            if p["name"] is not None:
                by_name[p["name"]].add(canon)
            req[canon] += bool(p["required"])
            decl[canon] += 1
            if p["complex"]:
                cx.add(canon)
    if any(len(v) != 1 for v in by_name.values()):
        return "reject"
    positions = sorted(pos_names)
    named = []
    for pos in reversed(positions):
        names = pos_names[pos]
        if len(names) == 1 and isinstance(next(iter(names)), str):
            named.insert(0, pos)
        else:
            break
    strict = [p for p in positions if p not in named]
    out = {
        "strict_positional_required": [f"ARG{p + 1}" for p in strict if req[p] == total],
        "strict_positional_optional": [f"ARG{p + 1}" for p in strict if req[p] != total],
        "positional_required": [next(iter(pos_names[p])) for p in named if req[p] == total],
        "positional_optional": [next(iter(pos_names[p])) for p in named if req[p] != total],
        "keyword_required": sorted(n for n, c in by_name.items() if not isinstance(next(iter(c)), int) and req[n] == total),
        "keyword_optional": sorted(n for n, c in by_name.items() if not isinstance(next(iter(c)), int) and req[n] != total),
        "complex": cx,
        "keys": set(decl),
    }
    return out


LISTS = ("strict_positional_required", "strict_positional_optional", "positional_required", "positional_optional", "keyword_required", "keyword_optional")


class OSet:
    """A set whose iteration order the analysis chooses (ascending or descending by text)."""

    descending = False

    def __init__(self, items=()):
        self.d = {}
        for x in items:
            self.d[x] = True

    def add(self, x):
        self.d[x] = True

    def update(self, xs):
        for x in xs:
            self.d[x] = True

    def discard(self, x):
        self.d.pop(x, None)

    def pop(self):
        x = next(iter(self))
        del self.d[x]
        return x

    def __iter__(self):
        return iter(sorted(self.d, key=lambda v: (type(v).__name__, str(v)), reverse=OSet.descending))

    def __len__(self):
        return len(self.d)

    def __contains__(self, x):
        return x in self.d

    def __bool__(self):
        return bool(self.d)

    def __eq__(self, o):
        return set(self.d) == set(o.d if isinstance(o, OSet) else o)

    def __hash__(self):
        return 0

    def __sub__(self, o):
        return OSet(x for x in self.d if x not in o)

    def __and__(self, o):
        return OSet(x for x in self.d if x in o)

    def __or__(self, o):
        return OSet(list(self.d) + list(o))


def analyse(ctx, scenario, twice=False):
    """Interpret the analyser on one scenario -> Instance after compile(), or 'reject'."""
    repo = ctx.repo
    an = A.argument_analyzer(repo)
    sub = A.subtler_fn(repo)
    methods = {n: m.node for cc in reversed(repo.class_mro(an)) for n, m in cc.methods.items()}
    ctx.require("__init__" in methods, f"{an.key} has no __init__")
    adders = [n for n, m in an.methods.items() if len(m.params) == 2 and any(isinstance(x, ast.Attribute) and x.attr == "arginfo" for x in ast.walk(m.node))]
    ctx.require(len(adders) == 1, f"{an.key}: expected one method that takes a function and reads its signature's parameter list, found {adders}")
    compilers = [n for n, m in an.methods.items() if len(m.params) == 1 and any(isinstance(x, ast.Attribute) and isinstance(x.ctx, ast.Store) and x.attr in LISTS for x in ast.walk(m.node))]
    ctx.require(len(compilers) == 1, f"{an.key}: expected one method that computes the parameter lists, found {compilers}")
    selectors = [n for n, m in an.methods.items() if len(m.params) == 2 and any(isinstance(x, ast.Name) and x.id == sub.name for x in ast.walk(m.node))]
    ctx.require(len(selectors) == 1, f"{an.key}: expected one per-parameter key selector, found {selectors}")

    class Sig(Record):
        pass

    genv = {"defaultdict": collections.defaultdict, "itertools": itertools, sub.name: SUBTLER, "type": TYPE, "set": OSet, "frozenset": OSet}
    hi = HostInterp({}, Record(), {}, globals_env=genv, classes={an.name: methods}, functions={})
    hi.host_types = hi.host_types + (OSet, collections.defaultdict)
    orig_call = hi.call

    def call(e, env):
        # the signature extraction applied to one of our method records is the identity
        if len(e.args) == 1 and not e.keywords and not isinstance(e.args[0], ast.Starred):
            try:
                v = hi.ev(e.args[0], env)
            except AnalysisError:
                v = None
            if isinstance(v, Sig) and not (isinstance(e.func, ast.Attribute) and isinstance(e.func.value, ast.Name) and e.func.value.id == "self"):
                return v
        return orig_call(e, env)

    hi.call = call
    obj = Instance(an.name, methods)
    hi.call_function(methods["__init__"], [obj], {}, {})
    sigs = []
    for is_method, params in scenario:
        infos = [
            Record(position=p["position"], name=p["name"], required=p["required"], is_complex=p["complex"], ann="<ann>", canonical=p["name"] if p["position"] is None else p["position"])
            for p in params
        ]
        sigs.append(Sig(arginfo=infos, is_method=is_method))
    try:
        for s in sigs:
            hi.call_function(methods[adders[0]], [obj, s], {}, {})
        hi.call_function(methods[compilers[0]], [obj], {}, {})
        if twice:
            hi.call_function(methods[compilers[0]], [obj], {}, {})
    except Raised as r:
        return ("reject", r.what), None
    sel = lambda key: hi.call_function(methods[selectors[0]], [obj, key], {}, {})  # noqa: E731
    return obj, sel


def check(ctx, name):
    scenario = SCENARIOS[name]
    want = reference(scenario)
    got, sel = analyse(ctx, scenario)
    problems = {"required-iff-everywhere": [], "partition": [], "conflicts-rejected": [], "key-function": [], "is-method": []}
    if want == "reject":
        if not (isinstance(got, tuple) and got[0] == "reject"):
            problems["conflicts-rejected"].append("methods that declare one name at different positions (or positional here, keyword-only there) are accepted")
        return problems
    if isinstance(got, tuple):
        for k in problems:
            problems[k].append(f"a consistent method set is rejected with {got[1]}")
        return problems
    lists = {}
    for l in LISTS:
        if l not in got.__dict__:
            raise AnalysisError(f"analysis result has no attribute {l}")
        lists[l] = list(got.__dict__[l])
    # partition
    for a, b in itertools.combinations(LISTS, 2):
        both = set(lists[a]) & set(lists[b])
        if both:
            problems["partition"].append(f"{sorted(both)} appear in both {a} and {b}")
    n_declared = sum(len(lists[l]) for l in LISTS)
    if n_declared != len(want["keys"]):
        problems["partition"].append(f"{n_declared} parameters are listed, the methods declare {len(want['keys'])}")
    for grp in ("strict_positional", "positional", "keyword"):
        g = set(lists[grp + "_required"]) | set(lists[grp + "_optional"])
        w = set(want[grp + "_required"]) | set(want[grp + "_optional"])
        if g != w:
            problems["partition"].append(f"{grp} parameters {sorted(g)}, expected {sorted(w)}")
    # order of positionals
    for grp in ("strict_positional", "positional"):
        for kind in ("_required", "_optional"):
            if sorted(lists[grp + kind]) == sorted(want[grp + kind]) and lists[grp + kind] != want[grp + kind]:
                problems["partition"].append(f"{grp + kind} is {lists[grp + kind]}, expected the order {want[grp + kind]}")
    # required iff everywhere
    for grp in ("strict_positional", "positional", "keyword"):
        g, w = set(lists[grp + "_required"]), set(want[grp + "_required"])
        if g - w:
            problems["required-iff-everywhere"].append(f"{sorted(g - w)} required by the entry point although some method has a default for it (or does not declare it): the call that omits it is rejected before dispatch")
        if w - g:
            problems["required-iff-everywhere"].append(f"{sorted(w - g)} optional in the entry point although every method requires it")
    # key function per parameter
    for key in sorted(want["keys"], key=str):
        k = sel(key)
        wantk = SUBTLER if key in want["complex"] else TYPE
        if k is not wantk:
            problems["key-function"].append(f"parameter {key!r} is keyed by {k!r}, expected {wantk!r}")
    # method flag
    if got.__dict__.get("is_method") != scenario[0][0]:
        problems["is-method"].append(f"is_method is {got.__dict__.get('is_method')!r} for methods that {'do' if scenario[0][0] else 'do not'} take self")
    return problems


def check_order_independence(ctx, name):
    """The six lists do not depend on the iteration order of the analyser's sets, nor (as sets for the keyword
    lists) on the order in which the methods were added."""
    scenario = SCENARIOS[name]
    problems = {"set-order": [], "registration-order": []}

    def snapshot(sc):
        got, sel = analyse(ctx, sc)
        if isinstance(got, tuple):
            return ("reject",)
        return tuple((l, tuple(got.__dict__[l]) if not l.startswith("keyword") else tuple(sorted(got.__dict__[l]))) for l in LISTS)

    try:
        OSet.descending = False
        a = snapshot(scenario)
        OSet.descending = True
        b = snapshot(scenario)
    finally:
        OSet.descending = False
    if a != b:
        diff = [(x, y) for x, y in zip(a, b) if x != y]
        problems["set-order"].append(f"iterating the analyser's sets in the opposite order changes the result: {diff[0][0]} vs {diff[0][1]}" if diff else "the outcome (accepted / rejected) changes")
    if len(scenario) > 1:
        c = snapshot(list(reversed(scenario)))
        if a != c and ("reject",) not in (a, c):
            diff = [(x, y) for x, y in zip(a, c) if x != y]
            problems["registration-order"].append(f"adding the methods in the opposite order changes the result: {diff[0][0]} vs {diff[0][1]}")
        if (a == ("reject",)) != (c == ("reject",)):
            problems["registration-order"].append("adding the methods in the opposite order changes whether the method set is accepted")
    return problems


LAW_TEXT = {
    "set-order": ("the analysis does not depend on the iteration order of its sets of names / positions (interpreted under both orders)", "the entry point's parameter names or order change with the hash seed"),
    "registration-order": ("the analysis does not depend on the order in which the methods were added", "the entry point differs with registration order"),
    "required-iff-everywhere": ("a parameter is required by the entry point iff every method requires it", "a call some method accepts is rejected before dispatch (or an omitted argument reaches the table)"),
    "partition": ("every declared parameter is listed exactly once, strictly positional / named positional / keyword as the methods declare it", "an argument is dropped, duplicated or passed in the wrong role"),
    "conflicts-rejected": ("inconsistent declarations of one name are rejected when the analysis is compiled", "an argument passed by keyword reaches methods that declare the name at another position"),
    "key-function": ("a parameter is keyed by the type-valued key function iff some method annotates it with a generic alias", "type-valued arguments are dispatched on `type(x)` (or plain ones on the type-valued key)"),
    "is-method": ("the analysis records whether the methods take self", "self is not threaded through the entry point"),
}


def law(ctx, *names, scenarios=None):
    an = A.argument_analyzer(ctx.repo)
    ctx.touch(*an.methods.values())
    cache = ctx.cache.setdefault("arganal_checked", {})
    for sc in scenarios or SCENARIOS:
        if sc not in cache:
            cache[sc] = dict(check(ctx, sc))
            cache[sc].update(check_order_independence(ctx, sc))
        probs = cache[sc]
        for name in names:
            if name == "conflicts-rejected" and reference(SCENARIOS[sc]) != "reject":
                continue
            if name not in ("conflicts-rejected", "set-order", "registration-order") and reference(SCENARIOS[sc]) == "reject":
                continue
            text, why = LAW_TEXT[name]
            ps = probs[name]
            ctx.ob(f"{an.key}:{name}:{sc}", an.loc(), f"[{sc}] {text} (analysis obtained by abstractly executing the analyser)", not ps, "; ".join(ps[:3]) + ": " + why)
