"""Which self-references the adapter finds in a method and what it hands to the re-compiler, obtained by abstractly
executing `adapt_function` (and the name search it uses) on fake code objects.

Nothing of /repo is imported or run.  A code object is a stand-in with `co_names`, `co_freevars`, `co_consts`; a
function is a record with `__code__`, `__globals__`, `__closure__`.  The re-compiler and the plain renaming are stubs
that record their arguments; `recurse` / `call_next` are tokens; the function object has a `dispatch` token.

Reference (C08 / C09 / C07): the names handed to the re-compiler for "the function itself" are *all* names, at any
nesting depth of the method's code, in globals or closure cells, that are bound to `recurse`, to the function object
or to its entry point; the call_next name is found the same way (globals or closure); a method that references none
of them is only renamed.
"""

import ast

from .. import anchors as A
from ..metainterp import HostFn, HostInterp, Raised, Record
from ..model import AnalysisError


class FakeCode:
    def __init__(self, names=(), freevars=(), consts=()):
        self.co_names = tuple(names)
        self.co_freevars = tuple(freevars)
        self.co_consts = tuple(consts)
        self.co_firstlineno = 1
        self.co_filename = "<fake>"


class Cell:
    def __init__(self, v):
        self.cell_contents = v


class _Wild:
    """an unrelated object that claims to be equal to everything (unittest.mock.ANY, an array-like, a wildcard)"""

    def __eq__(self, other):
        return True

    def __ne__(self, other):
        return False

    __hash__ = object.__hash__


WILD = _Wild()
RECURSE = Record(kind="recurse symbol")
CALL_NEXT = Record(kind="call_next symbol")
DISPATCH = Record(kind="entry point")
OTHER = Record(kind="something else")


def scenarios():
    ov = Record(kind="function object", dispatch=DISPATCH)
    out = {}
    # recurse by its global name, the function's own name bound to the entry point, the function object in a closure
    # cell, recurse again (under another name) inside a nested lambda's code; one unrelated global
    inner = FakeCode(names=("deep_alias", "print"))
    deeper = FakeCode(names=(), consts=(None, 3, FakeCode(names=("deepest_alias",))))
    out["references-everywhere"] = dict(
        # (a generator expression's first constant can itself be code: the nested code in slot 0 counts too)
        code=FakeCode(names=("recurse", "myself", "len", "wildcard"), freevars=("captured", "unrelated", "captured_wildcard"), consts=(FakeCode(names=("first_slot_alias",)), None, "doc", inner, deeper)),
        globals={"recurse": RECURSE, "myself": DISPATCH, "deep_alias": RECURSE, "deepest_alias": ov, "first_slot_alias": DISPATCH, "len": OTHER, "print": OTHER, "wildcard": WILD},
        closure=(Cell(ov), Cell(OTHER), Cell(WILD)),
        want_rec={"recurse", "myself", "captured", "deep_alias", "deepest_alias", "first_slot_alias"},
        want_cn=None,
        ov=ov,
    )
    out["call_next-in-a-closure-cell"] = dict(
        code=FakeCode(names=("len",), freevars=("cn",)),
        globals={"len": OTHER},
        closure=(Cell(CALL_NEXT),),
        want_rec=set(),
        want_cn="cn",
        ov=ov,
    )
    out["call_next-global-and-recurse-global"] = dict(
        code=FakeCode(names=("call_next", "recurse")),
        globals={"call_next": CALL_NEXT, "recurse": RECURSE},
        closure=None,
        want_rec={"recurse"},
        want_cn="call_next",
        ov=ov,
    )
    out["no-reference"] = dict(code=FakeCode(names=("len",), consts=(FakeCode(names=("print",)),)), globals={"len": OTHER, "print": OTHER}, closure=None, want_rec=set(), want_cn=None, ov=ov)
    return out


def run(ctx, sc):
    repo = ctx.repo
    ad = A.adapter(repo)
    rc = A.recompiler(repo)
    calls = {}

    def recode(*a, **k):
        calls["recode"] = (a, k)
        return Record(kind="recompiled")

    genv = {"CodeType": FakeCode, "recurse": RECURSE, "call_next": CALL_NEXT, rc.name: recode}
    funcs = {n: g.node for n, g in ad.module.funcs.items() if g.parent is None and g.cls is None and g is not ad and g is not rc}
    # the plain renaming: the other function the adapter returns the result of
    for c in ast.walk(ad.node):
        if isinstance(c, ast.Call) and isinstance(c.func, ast.Name) and c.func.id in funcs and c.func.id != rc.name:
            g = ad.module.funcs[c.func.id]
            if any(isinstance(x, ast.Call) and isinstance(x.func, ast.Name) and x.func.id == "FunctionType" for x in ast.walk(g.node)):
                nm = c.func.id

                def rename(*a, _nm=nm, **k):
                    calls["rename"] = (a, k)
                    return Record(kind="renamed")

                genv[nm] = rename
                funcs.pop(nm)
    hi = HostInterp({}, Record(), {}, globals_env=genv, classes={}, functions=funcs)
    hi.host_types = hi.host_types + (FakeCode, Cell, _Wild)
    fn = Record(__code__=sc["code"], __globals__=sc["globals"], __closure__=sc["closure"], __name__="method")
    params = ad.params
    if len(params) != 3:
        raise AnalysisError(f"{ad.key}: expected (function, function object, new name)")
    try:
        res = hi.call_function(ad.node, [fn, sc["ov"], "<newname>"], {}, {})
    except Raised as r:
        raise AnalysisError(f"{ad.key}: raises {r.what}")
    return res, calls, fn


def check(ctx, name):
    sc = scenarios()[name]
    res, calls, fn = run(ctx, sc)
    rc = A.recompiler(ctx.repo)
    problems = {"all-references": [], "call_next-found": [], "plain-methods-renamed": []}
    wants_recode = bool(sc["want_rec"] or sc["want_cn"])
    if not wants_recode:
        if "recode" in calls or "rename" not in calls:
            problems["plain-methods-renamed"].append("a method that references neither recurse, call_next nor its own function is sent to the re-compiler (or not renamed)")
        return problems
    if "recode" not in calls:
        problems["all-references"].append(f"the method references {sorted(sc['want_rec']) or sc['want_cn']} but is not sent to the re-compiler")
        return problems
    a, k = calls["recode"]
    bound = dict(zip(rc.params, a))
    bound.update(k)
    if bound.get(rc.params[0]) is not fn or bound.get(rc.params[1]) is not sc["ov"]:
        problems["all-references"].append("the re-compiler is not given the method and its function object")
    rec = bound.get(rc.params[2])
    got = set(rec) if isinstance(rec, (list, tuple, set)) else ({rec} if isinstance(rec, str) else set())
    if got != sc["want_rec"]:
        missing = sorted(sc["want_rec"] - got)
        extra = sorted(got - sc["want_rec"])
        problems["all-references"].append((f"names {missing} (bound to recurse / the function / its entry point) are not handed to the re-compiler" if missing else "") + (f" names {extra} that are bound to something else are handed over" if extra else ""))
    cn = bound.get(rc.params[3])
    cn_name = cn if isinstance(cn, str) else (cn[0] if isinstance(cn, (list, tuple)) and cn else None)
    if cn_name != sc["want_cn"]:
        problems["call_next-found"].append(f"the call_next name handed to the re-compiler is {cn!r}, the method uses {sc['want_cn']!r}")
    return problems


LAW_TEXT = {
    "all-references": ("every name of the method's code - global or closure cell, at any nesting depth - that is bound to recurse, the function object or its entry point *itself* (the very object, not something that merely compares equal) is handed to the re-compiler, and no other", "a leftover reference keeps calling the function the method was first registered in (or raises UsageError) when it runs inside a variant"),
    "call_next-found": ("the name under which the method sees call_next is found in globals and in closure cells", "call_next imported inside an enclosing function is left unrewritten and raises UsageError"),
    "plain-methods-renamed": ("a method without such references is only renamed", "ordinary methods are needlessly recompiled from source (or not registered under their own name)"),
}


def law(ctx, *names):
    ad = A.adapter(ctx.repo)
    ctx.touch(ad)
    cache = ctx.cache.setdefault("adapt_checked", {})
    for sc in scenarios():
        if sc not in cache:
            cache[sc] = check(ctx, sc)
        for name in names:
            text, why = LAW_TEXT[name]
            ps = cache[sc][name]
            ctx.ob(f"{ad.key}:{name}:{sc}", ad.loc(), f"[{sc}] {text} (adapter abstractly executed on stand-in code objects)", not ps, "; ".join(ps[:2]) + ": " + why)
