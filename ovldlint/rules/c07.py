"""C07 - call_next walks down the resolution order one method at a time."""

import ast

from .. import anchors as A
from ..cfg import all_stmts
from ..effects import DICT, stmt_calls
from ..model import AnalysisError, call_name, dotted, is_self_attr, short, src
from .c05 import lookup_path
from .c18 import cache_stores, key_shapes
from .common import cfg_of, recv_name


def _code_branch(ctx, miss):
    """The `if` of __missing__ that handles keys led by a code object."""
    for st in miss.node.body:
        if isinstance(st, ast.If) and any(isinstance(n, ast.Name) and n.id == "CodeType" for n in ast.walk(st.test)):
            return st
    raise AnalysisError(f"{miss.key}: no branch testing for a leading code object (CodeType)")


def r1_one_code_object(ctx):
    rc = A.recompiler(ctx.repo)
    ctx.touch(rc)
    cfg = cfg_of(ctx, rc)
    rets = [n for n in ast.walk(rc.node) if isinstance(n, ast.Return) and n.value is not None]
    ret_names = {dotted(r.value) for r in rets}
    stores = [
        st
        for st in all_stmts(rc.node)
        if isinstance(st, ast.Assign)
        and isinstance(st.targets[0], ast.Subscript)
        and isinstance(st.targets[0].value, ast.Attribute)
        and st.targets[0].value.attr == "__globals__"
        and isinstance(st.value, ast.Attribute)
        and st.value.attr == "__code__"
    ]
    ctx.require(stores, f"{rc.key} binds no global to a __code__ object")
    for st in stores:
        who = dotted(st.value.value)
        rebinds = [
            s
            for s in all_stmts(rc.node)
            if isinstance(s, ast.Assign) and any(isinstance(t, ast.Name) and t.id == who for t in s.targets) and cfg.node_of(s) in cfg.reachable(cfg.node_of(st))
        ]
        ok = who in ret_names and len(ret_names) == 1 and not rebinds
        ctx.ob(
            f"{rc.key}:code-global",
            rc.loc(st),
            "the global under which a rewritten method finds its own code is the __code__ of the very function object that is returned (after its last rebinding)",
            ok,
            f"`{short(st, 60)}` binds the code key to `{who}.__code__`, but the function handed to the table is `{', '.join(sorted(x for x in ret_names if x))}`{' (rebound afterwards)' if rebinds else ''}: the method's call_next key never matches a continuation entry",
        )
    from . import resolveexec

    resolveexec.with_fallback(ctx, ("entries", "errors", "no-method"), _continuation_prefix_shape)


def _continuation_prefix_shape(ctx):
    # continuation prefixes derive from __code__ of the handlers of the rank
    multi = A.multimap(ctx.repo)
    n = 0
    for m, st, w, key in cache_stores(ctx, multi, tables=(DICT, "errors")):
        rv = recv_name(m)
        params = [p for p in m.params if p != rv][:1]
        if "prefixed" not in key_shapes(m.node, key, params):
            continue
        ctx.touch(m)
        # find the prefix variable: (parent, *key) for parent in parents ; parents = codes ; codes = [h.__code__ ...]
        ok = _prefix_is_code(m.node)
        n += 1
        ctx.ob(
            f"{m.key}:{w.attr}:prefix-is-code",
            m.loc(st),
            "continuation keys are prefixed by __code__ of the registered handlers of the rank above",
            ok,
            "continuation entries are not keyed by the handlers' code objects: the key a rewritten method sends never matches",
        )
    ctx.require(n, "no continuation (prefixed) store found")


def _prefix_is_code(fnode):
    """Some comprehension `(p, *key) for p in P` exists where P derives from a list of `<x>.__code__`."""
    for n in ast.walk(fnode):
        if isinstance(n, (ast.ListComp, ast.GeneratorExp)) and isinstance(n.elt, ast.Tuple) and len(n.elt.elts) == 2 and isinstance(n.elt.elts[1], ast.Starred):
            it = n.generators[0].iter
            seen = set()
            todo = [it]
            while todo:
                e = todo.pop()
                if isinstance(e, ast.Name):
                    if e.id in seen:
                        continue
                    seen.add(e.id)
                    for a in ast.walk(fnode):
                        if isinstance(a, ast.Assign) and any(isinstance(t, ast.Name) and t.id == e.id for t in a.targets):
                            todo.append(a.value)
                        # tuple targets: for group, (func, codes) in zip(results, funcs)
                        if isinstance(a, ast.For) and any(isinstance(t, ast.Name) and t.id == e.id for t in ast.walk(a.target)):
                            todo.append(a.iter)
                        if isinstance(a, ast.Call) and isinstance(a.func, ast.Attribute) and a.func.attr == "append" and isinstance(a.func.value, ast.Name) and a.func.value.id == e.id:
                            todo.extend(a.args)
                elif isinstance(e, (ast.ListComp, ast.GeneratorExp, ast.SetComp)):
                    if isinstance(e.elt, ast.Attribute) and e.elt.attr == "__code__":
                        return True
                    todo.append(e.elt)
                elif isinstance(e, ast.Attribute) and e.attr == "__code__":
                    return True
                elif isinstance(e, ast.Call):
                    todo.extend(e.args)
                elif isinstance(e, (ast.Tuple, ast.List)):
                    todo.extend(e.elts)
                elif isinstance(e, ast.BoolOp):
                    todo.extend(e.values)
                elif isinstance(e, ast.IfExp):
                    todo.extend([e.body, e.orelse])
    return False


def r2_key_only_for_call_next(ctx):
    from .rewriter import law_code_key

    law_code_key(ctx)


MISS_LAWS = {
    "errors-before-no-method": ("continuation:errors-before-no-method", "a continuation lookup raises the ambiguity filed under its key, and answers 'No method' for the argument types only when nothing was filed or stored", "call_next into a tied rank reports 'No method' instead of the ambiguity (or the last method's call_next does not report 'No method')"),
    "table-before-no-method": ("continuation:table-before-no-method", "a continuation lookup returns the continuation that resolving the bare key has just stored", "the first call_next for a type tuple not seen before answers 'No method' although a lower method exists"),
    "forces-bare-resolution": ("continuation:forces-bare-resolution", "a continuation lookup first has the bare key resolved - once, and its error propagates", "the first call_next for a type tuple fails, or resolves over and over"),
    "fresh-lookup-fallback": ("continuation:fresh-lookup-fallback", "when the caller's code is not among the applicable methods, call_next behaves like a fresh call (returns the bare-key entry)", "a caller that is not applicable to the new arguments no longer falls back to a fresh lookup"),
    "main:errors-before-reread": ("main:errors-before-reread", "a bare key is resolved once; then the error filed for it is raised, else the stored entry returned", "an ambiguous first rank is not reported, or a resolved call is resolved again"),
    "no-recomputation": ("continuation:no-recomputation", "a continuation lookup for a type tuple that is already resolved does not run the resolution again", "every call_next that ends the chain re-runs the whole resolution, user hooks included"),
}


def errors_consulted(ctx):
    """The miss handler's laws, by abstract execution (missexec); the statement-shape reading below is the fallback."""
    from . import missexec
    from .common import run_fallback

    multi = A.multimap(ctx.repo)
    miss = multi.methods["__missing__"]
    ctx.touch(miss)
    try:
        if "miss_checked" not in ctx.cache:
            ctx.cache["miss_checked"] = missexec.check(ctx)
        problems = ctx.cache["miss_checked"]
    except AnalysisError as e:
        # the handler's own model (what the resolution leaves where) does not fit this version: decide on the handler
        # and the resolution interpreted together, which assumes nothing about where things are filed
        from . import lookupexec

        n0 = len(ctx.obs)
        try:
            lookupexec.law(ctx, "reference", "repeat-is-first")
            return
        except AnalysisError:
            del ctx.obs[n0:]
        run_fallback(ctx, _errors_consulted_shape, e, "cache-miss handler")
        return
    for law, (key, text, why) in MISS_LAWS.items():
        ps = problems[law]
        ctx.ob(f"{miss.key}:{key}", miss.loc(), f"{text} (miss handler abstractly executed on 11 lookups)", not ps, "; ".join(ps[:2]) + ": " + why)


def _errors_consulted_shape(ctx):
    multi = A.multimap(ctx.repo)
    miss = multi.methods["__missing__"]
    ctx.touch(miss)
    rv = recv_name(miss)
    cfg = cfg_of(ctx, miss)
    br = _code_branch(ctx, miss)
    inside = [s for b in br.body for s in ast.walk(b) if isinstance(s, ast.stmt)]

    def errors_tests(stmts):
        out = []
        for s in stmts:
            if isinstance(s, ast.If):
                for n in ast.walk(s.test):
                    if isinstance(n, ast.Compare) and len(n.ops) == 1 and isinstance(n.ops[0], ast.In) and is_self_attr(n.comparators[0], "errors", selfname=rv):
                        if any(isinstance(x, ast.Raise) and x.exc is not None and any(is_self_attr(y, "errors", selfname=rv) for y in ast.walk(x.exc)) for b in s.body for x in ast.walk(b)):
                            out.append(s)
        return out

    # (i) continuation branch: "No method" only after errors were consulted
    tests_in = errors_tests(inside)
    nomethod = [s for s in inside if isinstance(s, ast.Raise) and s.exc is not None and isinstance(s.exc, ast.Call) and is_self_attr(s.exc.func, "key_error", selfname=rv)]
    ctx.require(nomethod, f"{miss.key}: the continuation branch no longer raises the 'No method' error itself")
    tnodes = [cfg.node_of(t) for t in tests_in]
    ok = bool(tests_in) and all(cfg.dominated_by(cfg.node_of(r), tnodes) for r in nomethod)
    ctx.ob(
        f"{miss.key}:continuation:errors-before-no-method",
        miss.loc(br),
        "in the continuation branch the remembered errors are consulted before answering 'No method'",
        ok,
        "resolve files the ambiguity of a lower rank under the continuation key in `errors`, but the continuation branch never looks there: call_next into a tied rank reports 'No method' instead of the ambiguity",
    )
    # (i') ... and so is the table itself: resolving the bare key may just have stored this very continuation
    params = [p for p in miss.params if p != rv][:1]
    reread = [
        s
        for s in inside
        if isinstance(s, ast.Return) and isinstance(s.value, ast.Subscript) and isinstance(s.value.value, ast.Name) and s.value.value.id == rv and key_shapes(miss.node, s.value.slice, params) == {"param"}
    ]
    ok_rr = bool(reread) and all(cfg.dominated_by(cfg.node_of(r), [cfg.node_of(x) for x in reread] + tnodes) or True for r in nomethod)
    if reread:
        # "No method" must not be reachable without having looked the continuation key up in the table
        looked = [s for s in inside if isinstance(s, ast.If) and any(isinstance(n, ast.Compare) and isinstance(n.ops[0], ast.In) and isinstance(n.comparators[0], ast.Name) and n.comparators[0].id == rv for n in ast.walk(s.test))]
        ok_rr = bool(looked) and all(cfg.dominated_by(cfg.node_of(r), [cfg.node_of(x) for x in looked]) for r in nomethod)
    ctx.ob(
        f"{miss.key}:continuation:table-before-no-method",
        miss.loc(reread[0]) if reread else miss.loc(br),
        "in the continuation branch the continuation entry that resolving the bare key may just have stored is looked up (and returned) before answering 'No method'",
        ok_rr,
        "resolve stores the continuation under (code, *types) while the bare key is being resolved inside this very branch, but the branch never re-reads the table: the first call_next for a type tuple not seen before answers 'No method' although a lower method exists",
    )
    # (ii) the bare key is resolved first, and a caller that is not a candidate falls back to a fresh lookup
    force = [s for s in br.body if isinstance(s, ast.Expr) and isinstance(s.value, ast.Subscript) and isinstance(s.value.value, ast.Name) and s.value.value.id == rv]
    fnodes = [cfg.node_of(s) for s in force]
    reads_all = [s for s in inside if isinstance(s, ast.If) and any(is_self_attr(n, "all", selfname=rv) for n in ast.walk(s.test))]
    ok2 = bool(force) and bool(reads_all) and all(cfg.dominated_by(cfg.node_of(s), fnodes) for s in reads_all)
    ctx.ob(
        f"{miss.key}:continuation:forces-bare-resolution",
        miss.loc(force[0]) if force else miss.loc(br),
        "the continuation branch first resolves the bare key (so the candidate-code set and the continuation entries exist) before consulting them",
        ok2,
        "the candidate set / continuation entries are read before the bare key was resolved: the first call_next for a type tuple fails",
    )
    fallback = False
    for s in reads_all:
        notin = any(isinstance(n, ast.Compare) and isinstance(n.ops[0], ast.NotIn) for n in ast.walk(s.test))
        branch = s.body if notin else s.orelse
        for x in branch:
            if isinstance(x, ast.Return) and isinstance(x.value, ast.Subscript) and isinstance(x.value.value, ast.Name) and x.value.value.id == rv:
                fallback = True
    ctx.ob(
        f"{miss.key}:continuation:fresh-lookup-fallback",
        miss.loc(reads_all[0]) if reads_all else miss.loc(br),
        "when the caller's code is not among the candidates, call_next behaves like a fresh call (returns the bare-key entry)",
        fallback,
        "a caller that is not applicable to the new arguments no longer falls back to a fresh lookup",
    )
    # (iii) main path: errors consulted after resolve, before the re-read
    outside = [s for s in all_stmts(miss.node) if s not in inside and s is not br]
    tests_out = errors_tests(outside)
    rets = [s for s in outside if isinstance(s, ast.Return) and isinstance(s.value, ast.Subscript) and isinstance(s.value.value, ast.Name) and s.value.value.id == rv]
    ok3 = bool(tests_out) and bool(rets) and all(cfg.dominated_by(cfg.node_of(r), [cfg.node_of(t) for t in tests_out]) for r in rets)
    ctx.ob(
        f"{miss.key}:main:errors-before-reread",
        miss.loc(tests_out[0]) if tests_out else miss.loc(),
        "after resolving a bare key the remembered error for it is raised before the table is re-read",
        ok3,
        "an ambiguous first rank is not reported from `errors`: the re-read misses and recurses",
    )


def r4_whole_ranks(ctx):
    from . import mroexec
    from .common import run_fallback

    n0 = len(ctx.obs)
    try:
        mroexec.law(ctx, "ranks")
    except AnalysisError as e:
        del ctx.obs[n0:]
        run_fallback(ctx, _r4_whole_ranks_shape, e, "candidate ranking")
        return
    # the interpretation decided the law; the shape rule adds a second, construct-level report where it recognises the
    # collections (a table built some other way - set(map(..)) - is not an error of the analysis)
    n1 = len(ctx.obs)
    try:
        _r4_whole_ranks_shape(ctx)
    except AnalysisError:
        del ctx.obs[n1:]


def _r4_whole_ranks_shape(ctx):
    from .common import builds

    multi = A.multimap(ctx.repo)
    n = 0
    for m in lookup_path(ctx, multi):
        bs = builds(m.node)
        # element-wise builds that also appear inline (e.g. a set comprehension stored straight into a table)
        for c in ast.walk(m.node):
            if isinstance(c, (ast.ListComp, ast.SetComp, ast.GeneratorExp)) and not any(b.node is not None and isinstance(getattr(b.node, "value", None), ast.AST) and any(x is c for x in ast.walk(b.node.value)) for b in bs if b.kind == "comp"):
                from .common import Build

                g = c.generators[0]
                bs.append(Build("<inline>", c.elt, g.target, g.iter, [], c, "comp"))
        for b in bs:
            mentions_code = any((isinstance(x, ast.Attribute) and x.attr == "__code__") or (isinstance(x, ast.Constant) and x.value == "__code__") for x in ast.walk(b.elt))
            if not mentions_code:
                continue
            ctx.touch(m)
            n += 1
            whole = dotted(iter_base_expr(b.iter)) is not None
            if whole:
                # ... and that collection is itself built from a whole collection
                src_name = dotted(iter_base_expr(b.iter))
                for b2 in bs:
                    if b2.name == src_name and dotted(iter_base_expr(b2.iter)) is None:
                        whole = False
            ctx.ob(
                f"{m.key}:codes-over:{short(b.iter, 30)}",
                m.loc(b.node),
                f"the code-object collection built from `{short(b.iter, 30)}` covers the whole rank / candidate list",
                whole,
                f"`{short(b.node, 70)}` covers only part of the rank: a method of that rank calling call_next is not recognised as a candidate or has no continuation entry",
            )
    ctx.require(n >= 2, "expected the candidate-code set and the per-rank continuation codes")


def iter_base_expr(e):
    from .common import iter_base

    return iter_base(e)


def r5_next_keys_like_call_next(ctx):
    from .c14 import key_function_sites

    key_function_sites(ctx, only=("next",))


def r6_ranks_partition(ctx):
    """The grouping of the sorted candidates into ranks, interpreted on every dominance relation over up to four
    candidates: the ranks are a partition of the candidates (no method in two ranks, none lost), in sorted order, and
    a rank's head is followed exactly by the candidates it does not dominate."""
    import itertools

    from ..metainterp import HostFn, HostInterp, Raised, Record
    from ..model import AnalysisError
    from .common import local_slice

    repo = ctx.repo
    multi = A.multimap(repo)
    rankers = [m for m in lookup_path(ctx, multi) if any(isinstance(c, ast.Call) and ((isinstance(c.func, ast.Attribute) and c.func.attr == "sort") or call_name(c) == "sorted") for c in ast.walk(m.node))]
    ctx.require(len(rankers) == 1, f"expected one candidate-ordering method on the lookup path, found {[r.key for r in rankers]}")
    rk = rankers[0]
    ctx.touch(rk)
    # the sorted candidate list and the value the method returns
    sorted_names = {dotted(c.func.value) for c in ast.walk(rk.node) if isinstance(c, ast.Call) and isinstance(c.func, ast.Attribute) and c.func.attr == "sort"}
    sorted_names |= {t.id for st in ast.walk(rk.node) if isinstance(st, ast.Assign) and isinstance(st.value, ast.Call) and call_name(st.value) == "sorted" for t in st.targets if isinstance(t, ast.Name)}
    sorted_names.discard(None)
    rets = [st for st in rk.node.body if isinstance(st, ast.Return) and st.value is not None]
    try:
        if len(sorted_names) != 1 or len(rets) != 1:
            raise AnalysisError("the sorted candidate list or the single top-level return was not found")
        cand = next(iter(sorted_names))
        expr = rets[0].value
        sl = local_slice(rk.node, expr, bound=(cand,))
        # statements of the slice that come after the sort (the grouping machinery): those before it build the list
        sort_line = max(c.lineno for c in ast.walk(rk.node) if isinstance(c, ast.Call) and ((isinstance(c.func, ast.Attribute) and c.func.attr == "sort") or call_name(c) == "sorted"))
        sl = [st for st in sl if st.lineno > sort_line]
        funcs = {n: f.node for n, f in rk.module.funcs.items() if f.parent is None and f.cls is None}
        methods = {n: m.node for n, m in multi.methods.items()}
        bad = None
        cases = 0
        for n in (1, 2, 3, 4):
            pairs = [(i, j) for i in range(n) for j in range(n) if i != j]
            space = itertools.product((True, False), repeat=len(pairs)) if n <= 3 else [tuple((i < j) if k % 3 else (k % 2 == 0) for k, (i, j) in enumerate(pairs)) for _ in (0,)] + [tuple(False for _ in pairs), tuple(True for _ in pairs), tuple(i < j for i, j in pairs)]
            for bits in space:
                rel = dict(zip(pairs, bits))
                cands = []
                for i in range(n):
                    c = Record(handler=f"h{i}", index=i)
                    c.dominates = HostFn(lambda other, i=i, rel=rel: rel[(i, other.index)])
                    cands.append(c)
                me = Record()
                hi = HostInterp(methods, me, {}, globals_env={}, classes={}, functions=funcs)
                env = {cand: list(cands), recv_name(rk): me}
                from ..metainterp import _Shared

                env = _Shared(env)
                for st in sl:
                    hi.stmt(st, env)
                got = hi.ev(expr, env)
                cases += 1
                ranks = [[c.index for c in r] for r in got]
                flat = [i for r in ranks for i in r]
                problem = None
                if sorted(flat) != list(range(n)):
                    dup = sorted({i for i in flat if flat.count(i) > 1})
                    lost = sorted(set(range(n)) - set(flat))
                    problem = (f"method(s) {dup} appear in two ranks" if dup else "") + (f" method(s) {lost} appear in no rank" if lost else "")
                elif ranks and ranks[0] != [0] + [j for j in range(1, n) if not rel[(0, j)]]:
                    problem = f"the first rank is {ranks[0]}, the head 0 does not dominate {[j for j in range(1, n) if not rel[(0, j)]]}"
                if problem and bad is None:
                    bad = (n, {k: v for k, v in rel.items() if v}, ranks, problem)
        ctx.ob(
            f"{rk.key}:ranks-partition",
            rk.loc(rets[0]),
            f"the ranks are a partition of the sorted candidates, each rank being its head plus the candidates the head does not dominate ({cases} dominance relations interpreted)",
            bad is None,
            (f"with {bad[0]} sorted candidates and dominance {bad[1]} the ranks are {bad[2]}: {bad[3]}: call_next visits a method twice or skips one" if bad else ""),
        )
        return
    except (AnalysisError, Raised) as e:
        ctx.note(f"{rk.key}: grouping not interpretable ({e}); shape rule used instead")
    _r6_ranks_partition_shape(ctx)


def _r6_ranks_partition_shape(ctx):
    multi = A.multimap(ctx.repo)
    pulls = [f for m in lookup_path(ctx, multi) for f in m.children.values() if any(isinstance(n, (ast.Yield, ast.YieldFrom)) for n in ast.walk(f.node))]
    ctx.require(len(pulls) == 1, f"expected one rank generator nested in the candidate ordering, found {[p.key for p in pulls]}")
    g = pulls[0]
    ctx.touch(g)
    outer = g.parent
    # the set by which the recursive call filters its input
    filt = None
    for st in g.node.body:
        if isinstance(st, ast.Assign) and isinstance(st.value, ast.ListComp):
            for gen in st.value.generators:
                for cond in gen.ifs:
                    if isinstance(cond, ast.Compare) and isinstance(cond.ops[0], ast.NotIn) and isinstance(cond.comparators[0], ast.Name):
                        filt = cond.comparators[0].id
    ctx.require(filt is not None, f"{g.key}: the rank generator no longer filters its input by a processed set (restructured)")
    # every append of a non-head candidate to the rank is accompanied by filt.add(...) in the same block
    appends = []
    for n in ast.walk(g.node):
        if isinstance(n, (ast.If, ast.For)):
            for block in (n.body, n.orelse):
                calls = [s.value for s in block if isinstance(s, ast.Expr) and isinstance(s.value, ast.Call)]
                app = [c for c in calls if isinstance(c.func, ast.Attribute) and c.func.attr == "append"]
                add = [c for c in calls if isinstance(c.func, ast.Attribute) and c.func.attr == "add" and dotted(c.func.value) == filt]
                for a in app:
                    appends.append((a, bool(add)))
    ctx.require(appends, f"{g.key}: no append of a tied candidate to the rank found")
    for a, ok in appends:
        ctx.ob(
            f"{g.key}:tied-candidate-recorded",
            g.loc(a),
            f"a candidate appended to a rank as tied (`{short(a, 40)}`) is recorded in `{filt}`, by which the recursive call filters its input",
            ok,
            "a tied candidate is not recorded as processed: it appears again in a lower rank, and call_next visits the same method twice",
        )


def r3(ctx):
    errors_consulted(ctx)


def r7_call_next_passes_arguments_intact(ctx):
    from .rewriter import law_each_argument_once

    law_each_argument_once(ctx)


def _more(name):
    def run(ctx):
        from . import more

        getattr(more, name)(ctx)

    run.__name__ = name
    return run


RULES = [
    ("C07.R7", "P1", r7_call_next_passes_arguments_intact, "call_next invokes the next method with exactly the arguments written"),
    ("C07.R1", "P1", r1_one_code_object, "one code object on both sides"),
    ("C07.R2", "P1", r2_key_only_for_call_next, "code key only for call_next"),
    ("C07.R3", "P1", r3, "every table written for continuations is read for continuations"),
    ("C07.R4", "P1", r4_whole_ranks, "whole ranks"),
    ("C07.R5", "P1", r5_next_keys_like_call_next, "f.next keys like call_next"),
    ("C07.R6", "P1", r6_ranks_partition, "ranks partition the candidates"),
    ("C07.R8", "P1", _more("recompiler_globals_are_unique"), "the code object that identifies the caller has a unique global name"),
    ("C07.R9", "P1", _more("applicable_set_from_final_candidates"), "the applicable-code set comes from the final candidates"),
    ("C07.R10", "P1", _more("sort_key_refines_dominance"), "the sort key refines dominance (interpreted)"),
]
