"""C04 - caching is invisible: a call's outcome never depends on earlier calls."""

import ast

from .. import anchors as A
from ..cfg import all_stmts
from ..effects import DICT, MUTATORS, stmt_calls
from ..model import call_name, dotted, is_self_attr, short
from .c05 import lookup_path
from .c18 import cache_stores, key_shapes
from .c20 import cache_attr_names, r4_only_cache_classes_write_cache
from .common import cfg_of, recv_name


def r1_store_key_is_lookup_key(ctx):
    n = 0
    for cls in A.cache_classes(ctx.repo):
        for m, st, w, key in cache_stores(ctx, cls):
            rv = recv_name(m)
            params = [p for p in m.params if p != rv][:1]
            ctx.touch(m)
            shapes = key_shapes(m.node, key, params)
            tname = "the dict" if w.attr == DICT else f"`{w.attr}`"
            n += 1
            ctx.ob(
                f"{m.key}:{w.attr}:key",
                m.loc(st),
                f"store into {tname} (`{short(st, 50)}`) is filed under the looked-up key or a one-element-prefixed copy of it [{', '.join(sorted(shapes))}]",
                shapes <= {"param", "prefixed"},
                f"`{short(st, 60)}` files the result under a key that is not the key being looked up: it is never found again, or it is served to another key's lookups",
            )
    ctx.require(n, "no cache store found")


def _cache_read(expr, recv, in_cache_class, direct, elems):
    """Is expr a value read out of a cache object?"""
    if isinstance(expr, ast.Subscript):
        b = expr.value
        if in_cache_class and isinstance(b, ast.Name) and b.id == recv:
            return True
        if isinstance(b, ast.Attribute) and b.attr in direct:
            return True
        if isinstance(b, ast.Subscript) and isinstance(b.value, ast.Attribute) and b.value.attr in elems:
            return True
    if isinstance(expr, ast.Call) and isinstance(expr.func, ast.Attribute) and expr.func.attr == "get":
        b = expr.func.value
        if in_cache_class and isinstance(b, ast.Name) and b.id == recv:
            return True
        if isinstance(b, ast.Attribute) and b.attr in direct:
            return True
        if isinstance(b, ast.Subscript) and isinstance(b.value, ast.Attribute) and b.value.attr in elems:
            return True
    return False


def _mutates(st, name):
    """Does statement st mutate the object bound to `name` (not rebind it)?"""
    for n in ast.walk(st) if not hasattr(st, "body") else []:
        if isinstance(n, ast.Call) and isinstance(n.func, ast.Attribute) and n.func.attr in MUTATORS and isinstance(n.func.value, ast.Name) and n.func.value.id == name:
            return n
        if isinstance(n, (ast.Assign, ast.AugAssign)):
            tg = n.targets if isinstance(n, ast.Assign) else [n.target]
            for t in tg:
                if isinstance(t, ast.Subscript) and isinstance(t.value, ast.Name) and t.value.id == name:
                    return n
                if isinstance(n, ast.AugAssign) and isinstance(t, ast.Name) and t.id == name:
                    return n  # x |= ..., x += ... mutate sets/lists/dicts in place
        if isinstance(n, ast.Delete):
            for t in n.targets:
                if isinstance(t, ast.Subscript) and isinstance(t.value, ast.Name) and t.value.id == name:
                    return n
    return None


def _rebinds(st, name):
    if isinstance(st, ast.Assign):
        return any(isinstance(t, ast.Name) and t.id == name for t in st.targets)
    if isinstance(st, (ast.For,)):
        return any(isinstance(t, ast.Name) and t.id == name for t in ast.walk(st.target))
    return False


def r2_cached_values_never_mutated(ctx):
    repo = ctx.repo
    caches = A.cache_classes(repo)
    direct, elems = cache_attr_names(ctx)
    n = 0
    for f in repo.all_funcs():
        in_cc = f.cls in caches
        rv = recv_name(f) if f.cls is not None else None
        reads = []
        for st in all_stmts(f.node):
            if isinstance(st, ast.Assign) and len(st.targets) == 1 and isinstance(st.targets[0], ast.Name) and _cache_read(st.value, rv, in_cc, direct, elems):
                reads.append((st, st.targets[0].id))
            # direct mutation of a cache read expression: self[k].update(...)
            if not hasattr(st, "body"):
                for c in ast.walk(st):
                    if isinstance(c, ast.Call) and isinstance(c.func, ast.Attribute) and c.func.attr in MUTATORS and _cache_read(c.func.value, rv, in_cc, direct, elems):
                        n += 1
                        ctx.touch(f)
                        ctx.ob(f"{f.key}:inplace:{short(c.func.value, 30)}", f.loc(c), "a cached value is not modified in place", False, f"`{short(c, 60)}` mutates the object stored in the cache: every later lookup of that key sees the modification")
        if not reads:
            continue
        ctx.touch(f)
        cfg = cfg_of(ctx, f)
        stmts = [s for s in all_stmts(f.node) if not isinstance(s, (ast.FunctionDef, ast.ClassDef))]
        for st, name in reads:
            rebind_nodes = [cfg.node_of(s) for s in stmts if s is not st and _rebinds(s, name)]
            reach = cfg.reachable(cfg.node_of(st), avoiding=[x for x in rebind_nodes if x is not None])
            bad = None
            for s in stmts:
                nid = cfg.node_of(s)
                if nid in reach and nid not in rebind_nodes:
                    mu = _mutates(s, name)
                    if mu is not None:
                        bad = s
                        break
            n += 1
            ctx.ob(
                f"{f.key}:{name}<-{short(st.value, 30)}",
                f.loc(st),
                f"the value read from the cache into `{name}` is not mutated before `{name}` is rebound",
                bad is None,
                f"`{short(bad, 60)}` ({f.loc(bad).split(':')[-1]}) modifies the cached object in place: the first caller's filtering is seen by every later lookup of that key" if bad is not None else "",
            )
    ctx.require(n >= 1, "no read of a cached value into a local found")


def r3_errors_consulted(ctx):
    from .c07 import errors_consulted

    errors_consulted(ctx)


def _more(name):
    def run(ctx):
        from . import more

        getattr(more, name)(ctx)

    run.__name__ = name
    return run


RULES = [
    ("C04.R1", "P1", r1_store_key_is_lookup_key, "store key = lookup key"),
    ("C04.R2", "P1", r2_cached_values_never_mutated, "cached values are never mutated"),
    ("C04.R3", "P1", r3_errors_consulted, "remembered errors are consulted where they are written for"),
    ("C04.R4", "P1", r4_only_cache_classes_write_cache, "only the cache classes write cache entries"),
    ("C04.R5", "P1", _more("recompiler_globals_are_unique"), "globals planted by the re-compiler are named uniquely"),
    ("C04.R6", "P1", _more("call_paths_keep_no_state"), "per-call methods of the function object keep no state"),
    ("C04.R7", "P1", _more("resolution_always_ranks"), "resolution never returns before ranking"),
]
