"""Helpers shared by several rule modules."""

import ast

from .. import anchors as A
from ..cfg import CFG, all_stmts
from ..effects import func_writes, stmt_calls, stmt_writes
from ..model import AnalysisError, call_name, dotted, is_self_attr, short

TABLE_ATTRS = ("_defns", "mixins")


def cfg_of(ctx, fi):
    key = ("cfg", fi.key)
    if key not in ctx.cache:
        ctx.cache[key] = CFG(fi.node)
    return ctx.cache[key]


def nested_defs(fnode):
    return {
        st.name: st
        for st in all_stmts(fnode)
        if isinstance(st, (ast.FunctionDef, ast.AsyncFunctionDef))
    }


def writes_with_nested(fnode, recv="self"):
    """Writes of the function, with those of a nested def attributed to the statements that call it.

    Returns list of (Write, stmt_in_outer_function).
    """
    out = [(w, w.stmt) for w in func_writes(fnode, recv)]
    nd = nested_defs(fnode)
    for name, d in nd.items():
        inner = func_writes(d, recv)
        if not inner:
            continue
        sites = []
        for st in all_stmts(fnode):
            if st is d:
                continue
            if isinstance(st, (ast.FunctionDef, ast.AsyncFunctionDef, ast.ClassDef)):
                continue
            for c in stmt_calls(st):
                if isinstance(c.func, ast.Name) and c.func.id == name:
                    sites.append(st)
        if not sites:
            sites = [d]
        for w in inner:
            for s in sites:
                out.append((w, s))
    return out


def stmts_calling_self(fnode, mname, recv="self"):
    """Statements of fnode at whose CFG node recv.mname(...) is called."""
    out = []
    for st in all_stmts(fnode):
        if isinstance(st, (ast.FunctionDef, ast.AsyncFunctionDef, ast.ClassDef)):
            continue
        for c in stmt_calls(st):
            if is_self_attr(c.func, mname, selfname=recv):
                out.append(st)
                break
    return out


def recv_name(fi):
    a = fi.node.args
    allp = a.posonlyargs + a.args
    return allp[0].arg if allp else "self"


def is_property(fi):
    return any(dotted(d) in ("property", "cached_property", "functools.cached_property") for d in fi.node.decorator_list)


def method_table_writers(ctx):
    """(method, Write, outer stmt) for writes to the own method table / mixin list outside __init__."""
    oc = A.function_class(ctx.repo)
    out = []
    for m in oc.methods.values():
        if m.name == "__init__":
            continue
        rv = recv_name(m)
        for w, st in writes_with_nested(m.node, rv):
            if w.attr in TABLE_ATTRS:
                out.append((m, w, st))
    return out


def loops_over(fnode, pred):
    """For/comprehension nodes in fnode whose iterable satisfies pred(expr)."""
    out = []
    for n in ast.walk(fnode):
        if isinstance(n, (ast.For, ast.AsyncFor)) and pred(n.iter):
            out.append(n)
    return out
