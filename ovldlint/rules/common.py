"""Helpers shared by several rule modules."""

import ast

from .. import anchors as A
from ..cfg import CFG, all_stmts
from ..effects import func_writes, stmt_calls, stmt_writes
from ..model import AnalysisError, call_name, dotted, is_self_attr, short, src

TABLE_ATTRS = ("_defns", "mixins")


def cfg_of(ctx, fi):
    key = ("cfg", fi.key)
    if key not in ctx.cache:
        ctx.cache[key] = CFG(fi.node)
    return ctx.cache[key]


def nested_defs(fnode):
    return {
        st.name: st
        for st in all_stmts(fnode)
        if isinstance(st, (ast.FunctionDef, ast.AsyncFunctionDef))
    }


def writes_with_nested(fnode, recv="self"):
    """Writes of the function, with those of a nested def attributed to the statements that call it.

    Returns list of (Write, stmt_in_outer_function).
    """
    out = [(w, w.stmt) for w in func_writes(fnode, recv)]
    nd = nested_defs(fnode)
    for name, d in nd.items():
        inner = func_writes(d, recv)
        if not inner:
            continue
        sites = []
        for st in all_stmts(fnode):
            if st is d:
                continue
            if isinstance(st, (ast.FunctionDef, ast.AsyncFunctionDef, ast.ClassDef)):
                continue
            for c in stmt_calls(st):
                if isinstance(c.func, ast.Name) and c.func.id == name:
                    sites.append(st)
        if not sites:
            sites = [d]
        for w in inner:
            for s in sites:
                out.append((w, s))
    return out


def stmts_calling_self(fnode, mname, recv="self"):
    """Statements of fnode at whose CFG node recv.mname(...) is called."""
    out = []
    for st in all_stmts(fnode):
        if isinstance(st, (ast.FunctionDef, ast.AsyncFunctionDef, ast.ClassDef)):
            continue
        for c in stmt_calls(st):
            if is_self_attr(c.func, mname, selfname=recv):
                out.append(st)
                break
    return out


def recv_name(fi):
    a = fi.node.args
    allp = a.posonlyargs + a.args
    return allp[0].arg if allp else "self"


def is_property(fi):
    return any(dotted(d) in ("property", "cached_property", "functools.cached_property") for d in fi.node.decorator_list)


def method_table_writers(ctx):
    """(method, Write, outer stmt) for writes to the own method table / mixin list outside __init__."""
    oc = A.function_class(ctx.repo)
    out = []
    for m in oc.methods.values():
        if m.name == "__init__":
            continue
        rv = recv_name(m)
        for w, st in writes_with_nested(m.node, rv):
            if w.attr in TABLE_ATTRS:
                out.append((m, w, st))
    return out


def loops_over(fnode, pred):
    """For/comprehension nodes in fnode whose iterable satisfies pred(expr)."""
    out = []
    for n in ast.walk(fnode):
        if isinstance(n, (ast.For, ast.AsyncFor)) and pred(n.iter):
            out.append(n)
    return out


def iter_base(e):
    """Strip list()/tuple()/iter()/reversed()/sorted() wrappers and .copy() from an iterable expression."""
    while True:
        if isinstance(e, ast.Call) and call_name(e) in ("list", "tuple", "iter", "reversed", "sorted", "set", "frozenset") and e.args:
            e = e.args[0]
            continue
        if isinstance(e, ast.Call) and isinstance(e.func, ast.Attribute) and e.func.attr == "copy" and not e.args:
            e = e.func.value
            continue
        if isinstance(e, ast.Starred):
            e = e.value
            continue
        return e


def holds_at(ctx, fi, node, pred):
    """Does an atom satisfying pred(atom) hold whenever `node` (an expression or statement of fi) is evaluated?
    Sources: earlier operands of an enclosing `and`, enclosing if / conditional-expression tests (with polarity),
    comprehension conditions, and dominating early exits (`if not X: return/raise`)."""
    from ..model import parent_map
    from ..norm import atoms

    pm = ctx.cache.setdefault(("pm", fi.key), parent_map(fi.node))
    cur = node
    while cur in pm:
        p = pm[cur]
        if isinstance(p, ast.BoolOp) and isinstance(p.op, ast.And):
            idx = next((i for i, v in enumerate(p.values) if v is cur), None)
            if idx:
                for v in p.values[:idx]:
                    if any(pred(a) for a in atoms(v)):
                        return True
        if isinstance(p, ast.BoolOp) and isinstance(p.op, ast.Or):
            idx = next((i for i, v in enumerate(p.values) if v is cur), None)
            if idx:
                for v in p.values[:idx]:
                    if any(pred(a) for a in atoms(v, True)):
                        return True
        if isinstance(p, ast.If) and cur is not p.test:
            in_body = any(cur is s for s in p.body)
            if any(pred(a) for a in atoms(p.test, negate=not in_body)):
                return True
        if isinstance(p, ast.IfExp) and cur is not p.test:
            if any(pred(a) for a in atoms(p.test, negate=cur is p.orelse)):
                return True
        if isinstance(p, ast.comprehension) and cur is not p.iter:
            for c in p.ifs:
                if c is cur:
                    break
                if any(pred(a) for a in atoms(c)):
                    return True
        if isinstance(p, (ast.ListComp, ast.SetComp, ast.GeneratorExp, ast.DictComp)) and cur in (getattr(p, "elt", None), getattr(p, "key", None), getattr(p, "value", None)):
            for g in p.generators:
                for c in g.ifs:
                    if any(pred(a) for a in atoms(c)):
                        return True
        cur = p
    # dominating early exits
    st = node
    while st in pm and not isinstance(st, ast.stmt):
        st = pm[st]
    cfg = cfg_of(ctx, fi)
    n = cfg.node_of(st)
    if n is None:
        return False
    for g in all_stmts(fi.node):
        if isinstance(g, ast.If) and g is not st and g.body and isinstance(g.body[-1], (ast.Return, ast.Raise, ast.Continue, ast.Break)) and not g.orelse:
            if any(pred(a) for a in atoms(g.test, negate=True)):
                gn = cfg.node_of(g)
                if gn is not None and cfg.dominated_by(n, [gn]) and not any(x is st for b in g.body for x in ast.walk(b)):
                    return True
    return False


def path_atoms(fnode, node):
    """Atoms that hold whenever `node` (a statement or expression of fnode) runs: enclosing if / while tests with
    their polarity, and `continue`/`return` guards earlier in the same block (`if not X: continue`)."""
    from ..model import parent_map
    from ..norm import atoms

    pm = parent_map(fnode)
    out = []
    cur = node
    while cur in pm:
        p = pm[cur]
        if isinstance(p, ast.If) and cur is not p.test:
            in_body = any(cur is s for s in p.body)
            out += atoms(p.test, negate=not in_body)
        if isinstance(p, ast.IfExp) and cur is not p.test:
            out += atoms(p.test, negate=cur is p.orelse)
        # earlier guard statements in the same block
        for fld in ("body", "orelse", "finalbody"):
            blk = getattr(p, fld, None)
            if isinstance(blk, list) and any(cur is s for s in blk):
                for s in blk:
                    if s is cur:
                        break
                    if isinstance(s, ast.If) and not s.orelse and s.body and isinstance(s.body[-1], (ast.Continue, ast.Return, ast.Raise, ast.Break)):
                        out += atoms(s.test, negate=True)
        cur = p
    return out


def enclosing_loops(fnode, node):
    from ..model import parent_map

    pm = parent_map(fnode)
    out = []
    cur = node
    while cur in pm:
        cur = pm[cur]
        if isinstance(cur, (ast.For, ast.While)):
            out.append(cur)
    return out


class Build:
    """One way a local collection gets its elements: a comprehension, or an accumulate loop."""

    def __init__(self, name, elt, target, it, conds, node, kind):
        self.name, self.elt, self.target, self.iter, self.conds, self.node, self.kind = name, elt, target, it, conds, node, kind


def builds(fnode):
    """Collections built in fnode: `x = [E for T in I if C]` (list/set/generator, also as the direct argument of a
    call such as set(...)/list(...)), and `x = []` ... `for T in I: [if C:] x.append(E)` / `x.add(E)`."""
    from ..norm import atoms

    out = []
    for n in ast.walk(fnode):
        if isinstance(n, ast.Assign) and len(n.targets) == 1 and isinstance(n.targets[0], (ast.Name, ast.Subscript, ast.Attribute)):
            v = n.value
            if isinstance(v, ast.Call) and call_name(v) in ("list", "set", "tuple", "frozenset", "sorted") and v.args:
                v = v.args[0]
            if isinstance(v, (ast.ListComp, ast.SetComp, ast.GeneratorExp)) and len(v.generators) == 1:
                g = v.generators[0]
                conds = []
                for c in g.ifs:
                    conds += atoms(c)
                out.append(Build(dotted(n.targets[0]) or src(n.targets[0]), v.elt, g.target, g.iter, conds, n, "comp"))
        elif isinstance(n, ast.For):
            for c in ast.walk(n):
                if isinstance(c, ast.Call) and isinstance(c.func, ast.Attribute) and c.func.attr in ("append", "add") and isinstance(c.func.value, ast.Name) and len(c.args) == 1:
                    # innermost loop only
                    inner = [x for x in ast.walk(n) if isinstance(x, ast.For) and x is not n and any(y is c for y in ast.walk(x))]
                    if inner:
                        continue
                    conds = [a for a in path_atoms(fnode, c)]
                    outer = path_atoms(fnode, n)
                    conds = conds[: len(conds) - len(outer)] if len(conds) >= len(outer) else conds
                    out.append(Build(c.func.value.id, c.args[0], n.target, n.iter, conds, n, "loop"))
    return out


def _free_names(st):
    """Names a statement reads from its enclosing scope (for a nested def: its free variables)."""
    if isinstance(st, ast.FunctionDef):
        a = st.args
        own = {x.arg for x in a.posonlyargs + a.args + a.kwonlyargs} | ({a.vararg.arg} if a.vararg else set()) | ({a.kwarg.arg} if a.kwarg else set())
        loads = set()
        for x in ast.walk(st):
            if isinstance(x, ast.Name):
                if isinstance(x.ctx, ast.Store):
                    own.add(x.id)
                else:
                    loads.add(x.id)
        nl = {n for x in ast.walk(st) if isinstance(x, (ast.Nonlocal, ast.Global)) for n in x.names}
        return (loads - own) | nl | {x.id for d in st.decorator_list for x in ast.walk(d) if isinstance(x, ast.Name)}
    return {n.id for n in ast.walk(st) if isinstance(n, ast.Name)}


def local_slice(fnode, expr, bound=()):
    """The top-level statements of fnode (in order, all before the statement containing `expr`) on which the value of
    `expr` depends through local variables: a backward slice over names, whole statements kept.  Names in `bound`
    are inputs supplied by the caller: what defines them is not part of the slice."""
    body = list(fnode.body)
    idx = None
    for i, st in enumerate(body):
        if any(x is expr for x in ast.walk(st)):
            idx = i
            break
    if idx is None:
        return None
    need = {n.id for n in ast.walk(expr) if isinstance(n, ast.Name)} - set(bound)
    keep = []
    for st in reversed(body[:idx]):
        assigned = set()
        for x in ast.walk(st):
            if isinstance(x, (ast.Assign, ast.AugAssign, ast.AnnAssign, ast.For, ast.NamedExpr)):
                tg = x.targets if isinstance(x, ast.Assign) else [x.target]
                for t in tg:
                    work = [t]
                    while work:
                        nn = work.pop()
                        if isinstance(nn, ast.Name):
                            assigned.add(nn.id)
                        elif isinstance(nn, (ast.Tuple, ast.List)):
                            work.extend(nn.elts)
                        elif isinstance(nn, ast.Starred):
                            work.append(nn.value)
        if isinstance(st, (ast.FunctionDef, ast.ClassDef)):
            assigned.add(st.name)
        if isinstance(st, (ast.FunctionDef, ast.ClassDef)):
            assigned = {st.name}
        if assigned & need:
            keep.append(st)
            need |= _free_names(st) - set(bound)
    keep.reverse()
    return keep


def eval_with_slice(fnode, expr, env, stubs, enum_name="Order"):
    """Interpret the backward slice of `expr` in fnode and then `expr`, on the finite-domain interpreter."""
    from ..model import AnalysisError
    from ..orderdom import Interp

    sl = local_slice(fnode, expr)
    if sl is None:
        raise AnalysisError("slice: expression is not inside a top-level statement of the function")
    it = Interp(enum_name, stubs=stubs)
    env = dict(env)
    for st in sl:
        if isinstance(st, (ast.Import, ast.ImportFrom, ast.Expr)):
            continue
        it.stmt(st, env)
    return it.ev(expr, env)


def run_fallback(ctx, fallback, reason, what):
    """Run an older shape rule after the interpretation it was replaced by could not be carried out.  The shape
    rules are kept because they still decide the pinned tree's idioms; on other idioms they are known to misread
    behaviour-preserving code, so a *failing* shape rule in this situation is not reported as a violation but as an
    analysis that could not be completed (exit 2) - neither engine understood the code."""
    from ..model import AnalysisError

    n0 = len(ctx.obs)
    ctx.note(f"{what} not interpretable ({reason}); shape rule used instead")
    fallback(ctx)
    failed = [o for o in ctx.obs[n0:] if not o.ok]
    if failed:
        del ctx.obs[n0:]
        raise AnalysisError(f"{what} could not be interpreted ({reason}) and the shape rule does not recognise the code either ({failed[0].rule}@{failed[0].construct})")
