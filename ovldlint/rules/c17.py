"""C17 - overloaded methods in classes merge per class and inherit without leaking."""

import ast

from .. import anchors as A
from ..model import AnalysisError, call_name, dotted, is_self_attr, short, src, str_value
from ..skeleton import emissions
from .c03 import entrygen
from .common import recv_name

MUTATING = ("register", "add_mixins", "rename", "unregister")
BASE, FRESH, OWN = "base", "fresh", "own"


class Flow:
    """Statement-ordered abstract interpretation: which names hold an overload obtained from a base class?"""

    def __init__(self, f, base_iters, repo=None, depth=0):
        self.f = f
        self.base_iters = base_iters  # names that iterate the bases
        self.events = []  # (call node, receiver name, kind)
        self.repo = repo
        self.depth = depth
        self.returns = []

    def helper_call(self, e, st):
        """self._helper(args) / Class._helper(args) of the same class: run the helper with the argument kinds."""
        if self.repo is None or self.depth >= 2 or self.f.cls is None or not isinstance(e.func, ast.Attribute) or not isinstance(e.func.value, ast.Name):
            return None
        if e.func.value.id not in (recv_name(self.f), self.f.cls.name, "cls"):
            return None
        h = self.repo.find_method(self.f.cls, e.func.attr)
        if h is None or h is self.f or not e.func.attr.startswith("_") or e.func.attr.startswith("__"):
            return None
        static = any(dotted(d) == "staticmethod" for d in h.node.decorator_list)
        params = [a.arg for a in h.node.args.args]
        if not static:
            params = params[1:]
        sub = Flow(h, self.base_iters, self.repo, self.depth + 1)
        st2 = {}
        if not static and h.node.args.args:
            pass
        for p, a in zip(params, e.args):
            st2[p] = self.kind(a, st)
        sub.run(h.node.body, st2)
        self.events.extend(sub.events)
        ks = set(sub.returns)
        if BASE in ks:
            return BASE
        ks.discard(None)
        return ks.pop() if len(ks) == 1 else None

    def kind(self, e, st):
        if isinstance(e, ast.Name):
            return st.get(e.id)
        if isinstance(e, ast.NamedExpr):
            k = self.kind(e.value, st)
            if isinstance(e.target, ast.Name):
                st[e.target.id] = k
            return k
        if isinstance(e, ast.Call):
            cn = call_name(e) or ""
            if isinstance(e.func, ast.Attribute) and e.func.attr in ("copy", "variant"):
                return FRESH
            hk = self.helper_call(e, st)
            if hk is not None or (isinstance(e.func, ast.Attribute) and self.repo is not None and self.f.cls is not None and self.repo.find_method(self.f.cls, e.func.attr) is not None and e.func.attr.startswith("_") and not e.func.attr.startswith("__")):
                return hk
            if cn in ("Ovld", "ovld"):
                return FRESH
            if cn == "getattr" and e.args:
                b = e.args[0]
                if isinstance(b, ast.Name) and (st.get(b.id) == "baseclass"):
                    return BASE
                return None
            if cn == "to_ovld" and e.args:
                return self.kind(e.args[0], st)
        if isinstance(e, ast.Subscript):
            if isinstance(e.value, ast.Name) and e.value.id == recv_name(self.f) and self.f.cls is not None:
                return OWN
            return self.kind(e.value, st)
        if isinstance(e, (ast.List, ast.Tuple)):
            ks = {self.kind(x, st) for x in e.elts}
            return BASE if BASE in ks else (ks.pop() if len(ks) == 1 else None)
        if isinstance(e, (ast.ListComp, ast.GeneratorExp)):
            st2 = dict(st)
            for g in e.generators:
                self.bind(g.target, self.elem_kind(g.iter, st2), st2)
                for c in g.ifs:
                    self.kind(c, st2)
            return self.kind(e.elt, st2)
        if isinstance(e, ast.IfExp):
            a, b = self.kind(e.body, st), self.kind(e.orelse, st)
            return BASE if BASE in (a, b) else a or b
        if isinstance(e, ast.Attribute):
            k = self.kind(e.value, st)
            return k if k in (BASE, OWN) else None
        # assignment expressions buried in a test
        for sub in ast.iter_child_nodes(e):
            if isinstance(sub, ast.expr):
                self.kind(sub, st)
        return None

    def elem_kind(self, it, st):
        if isinstance(it, ast.Name) and it.id in self.base_iters:
            return "baseclass"
        if isinstance(it, ast.Attribute) and it.attr in self.base_iters:
            return "baseclass"
        return self.kind(it, st)

    def bind(self, target, k, st):
        if isinstance(target, ast.Name):
            st[target.id] = k
        elif isinstance(target, (ast.Tuple, ast.List)):
            for e in target.elts:
                self.bind(e.value if isinstance(e, ast.Starred) else e, k, st)

    def calls(self, node, st):
        for c in ast.walk(node):
            if isinstance(c, ast.Call) and isinstance(c.func, ast.Attribute) and c.func.attr in MUTATING and isinstance(c.func.value, ast.Name):
                self.events.append((c, c.func.value.id, st.get(c.func.value.id)))

    def run(self, stmts, st):
        for s in stmts:
            if isinstance(s, ast.Assign):
                self.calls(s.value, st)
                k = self.kind(s.value, st)
                for t in s.targets:
                    self.bind(t, k, st)
            elif isinstance(s, ast.Expr):
                self.calls(s.value, st)
                k = self.kind(s.value, st)
                c = s.value
                if isinstance(c, ast.Call) and isinstance(c.func, ast.Attribute) and c.func.attr in ("append", "extend", "add") and isinstance(c.func.value, ast.Name) and c.args:
                    ek = self.kind(c.args[0], st)
                    if ek == BASE or st.get(c.func.value.id) is None:
                        st[c.func.value.id] = ek if st.get(c.func.value.id) != BASE else BASE
            elif isinstance(s, ast.If):
                self.kind(s.test, st)
                a, b = dict(st), dict(st)
                self.run(s.body, a)
                self.run(s.orelse, b)
                for k in set(a) | set(b):
                    va, vb = a.get(k), b.get(k)
                    st[k] = BASE if BASE in (va, vb) else (va if va == vb else (va or vb))
            elif isinstance(s, ast.For):
                self.bind(s.target, self.elem_kind(s.iter, st), st)
                self.run(s.body, st)
                self.run(s.orelse, st)
            elif isinstance(s, (ast.With, ast.Try)):
                self.run(s.body, st)
            elif isinstance(s, ast.Return) and s.value is not None:
                self.calls(s.value, st)
                self.returns.append(self.kind(s.value, st))
        return st


def r1_copy_before_mutate(ctx):
    repo = ctx.repo
    ns = A.cls_namespace(repo)
    mc = A.overload_meta(repo)
    sites = [ns.methods["__setitem__"], mc.methods["__prepare__"]]
    n = 0
    for f in sites:
        ctx.touch(f)
        flow = Flow(f, {"bases", "_bases"}, repo)
        flow.run(f.node.body, {})
        ctx.require(flow.events, f"{f.key}: no register/add_mixins/rename call found (restructured)")
        for call, recv, kind in flow.events:
            n += 1
            ctx.ob(
                f"{f.key}:{recv}.{call.func.attr}",
                f.loc(call),
                f"`{short(call, 50)}` modifies an overload of this class body (own entry or a fresh copy), never one obtained from a base class",
                kind != BASE,
                f"`{short(call, 60)}` is applied to the overload object inherited from a base class without copying it first: defining the method in a subclass changes the base class's (and its siblings') dispatch",
            )
    ctx.require(n >= 4, "too few mutation sites in the class-namespace code")


def r2_self_threading_agrees(ctx):
    repo = ctx.repo
    def _skel(ctx_):
        eg = entrygen(ctx)
        gen = eg.fi
        ctx.touch(gen)
        # generator: declaration list and forwarded list both start with the self slot under is_method
        inits = {}
        for s in ast.walk(gen.node):
            if isinstance(s, ast.Assign) and isinstance(s.targets[0], ast.Name) and s.targets[0].id in (eg.args, eg.posargs) and isinstance(s.value, ast.List):
                inits[s.targets[0].id] = s.value
        ok = True
        for name in (eg.args, eg.posargs):
            v = inits.get(name)
            good = v is not None and len(v.elts) == 1 and isinstance(v.elts[0], ast.IfExp) and str_value(v.elts[0].body) == "self" and src(v.elts[0].test).endswith(".is_method") and str_value(v.elts[0].orelse) == ""
            ok = ok and good
        ctx.ob(f"{gen.key}:self-slot", gen.loc(), "for methods, the generated entry point both declares `self` first and forwards it first", ok, "the entry point declares `self` but does not forward it (or the reverse): the selected method is called without the instance, or with the first argument in its place")

    from .c03 import _with_fallback

    # (the configurations that are methods: the instance comes first and every supplied argument, positional or by
    # name, still reaches the selected method on every call shape - the early exits count one slot more for self)
    from . import entrygen as _eg

    _with_fallback(ctx, ("signature", "full-call", "early-exits", "call-shapes"), _skel, configs=[k for k, v in _eg.CONFIGS.items() if v[0]])
    # rewriter: the replacement call starts with self exactly for methods (abstract execution)
    from .rewriter import law_method_sites, law_self_first

    law_self_first(ctx)
    law_method_sites(ctx)
    # dependent generator: def header and every hand-over carry the self prefix
    dg = A.dependent_generator(repo)
    ctx.touch(dg)

    def _dep_skel(ctx_):
        slf = dg.params[3] if len(dg.params) > 3 else None
        bad = []
        cnt = 0
        for e in emissions(dg.node):
            sk = e.skeleton
            if "HANDLER" in sk.text.split("(")[0] or "FALLTHROUGH(" in sk.text or "return HANDLER" in sk.text:
                if "(" in sk.text and ("return" in sk.text):
                    cnt += 1
                    if slf not in sk.holes.values():
                        bad.append(e)
        header_ok = False
        for n in ast.walk(dg.node):
            if isinstance(n, ast.JoinedStr):
                s = str_value(n) or ""
                if s.startswith("def ") and f"(§{slf}§" in s:
                    header_ok = True
        ctx.ob(f"{dg.key}:self-prefix", dg.loc(), f"the dependent dispatcher declares the self prefix and passes it in all {cnt} hand-overs", cnt >= 4 and not bad and header_ok, f"`{short(bad[0].arg, 60)}` does not pass the self prefix" if bad else "the dependent dispatcher's header or calls lost the self prefix")

    from . import arganal
    from . import depgen as DG

    arganal.law(ctx, "is-method", scenarios=["one-method", "required-everywhere", "keyword-required-everywhere"])
    DG.with_fallback(ctx, ("signature", "hand-over"), _dep_skel, configs=[c for c, v in DG.CONFIGS.items() if v["slf"]] + ["two-predicates", "keyed-below-threshold"])
    # the wrapper derives the prefix from the handler's first parameter
    multi = A.multimap(repo)
    ws = [m for m in multi.methods.values() if any(isinstance(c, ast.Call) and call_name(c) == dg.name for c in ast.walk(m.node))]
    ctx.require(ws, "dependent wrapper not found")
    w = ws[0]
    ctx.touch(w)
    # decided by interpreting the wrapper on a handler that takes self and on one that does not
    try:
        a1, k1 = DG.wrapper_hands_over(ctx, w, dg.name, True)
        a0, k0 = DG.wrapper_hands_over(ctx, w, dg.name, False)
        with_self = [v for v in list(a1) + list(k1.values()) if isinstance(v, str) and v.strip().rstrip(",") == "self"]
        without = [v for v in list(a0) + list(k0.values()) if isinstance(v, str) and "self" in v]
        ok_i = len(with_self) == 1 and with_self[0] == "self, " and not without
        ctx.ob(f"{w.key}:self-prefix-derived", w.loc(), "the wrapper hands the generator 'self, ' exactly when the handlers take self (wrapper interpreted on both kinds of handler)", ok_i, "the dependent wrapper never (or always) threads self: value-dependent methods of a class are called without the instance")
        return
    except AnalysisError as e:
        ctx.note(f"{w.key} not interpretable ({e}); statement shape read instead")
    ok = False
    call = [c for c in ast.walk(w.node) if isinstance(c, ast.Call) and call_name(c) == dg.name][0]
    slf_param = dg.params[3] if len(dg.params) > 3 else None
    passed = None
    for k in call.keywords:
        if k.arg == slf_param:
            passed = k.value
    if passed is None and len(call.args) > 3:
        passed = call.args[3]
    values, tests = [], []

    def collect(e):
        if isinstance(e, ast.IfExp):
            tests.append(e.test)
            collect(e.body)
            collect(e.orelse)
        elif isinstance(e, ast.Constant):
            values.append(e.value)
        elif isinstance(e, ast.Name):
            for a in ast.walk(w.node):
                if isinstance(a, ast.Assign) and any(dotted(t) == e.id for t in a.targets):
                    collect(a.value)
            for i in ast.walk(w.node):
                if isinstance(i, ast.If) and any(isinstance(a, ast.Assign) and any(dotted(t) == e.id for t in a.targets) for b in (i.body, i.orelse) for a in b):
                    tests.append(i.test)
        else:
            values.append(None)

    if passed is not None:
        collect(passed)
    ok = set(values) == {"self, ", ""} and any("self" in src(t) for t in tests)
    ctx.ob(f"{w.key}:self-prefix-derived", w.loc(), "the wrapper passes 'self, ' exactly when the handlers take self", ok, "the dependent wrapper never (or always) threads self: value-dependent methods of a class are called without the instance")


def r3_descriptor_delegates(ctx):
    oc = A.function_class(ctx.repo)
    g = oc.methods.get("__get__")
    ctx.require(g is not None, f"{oc.key} lost __get__")
    ctx.touch(g)
    rv = recv_name(g)
    ps = [p for p in g.params if p != rv]
    rets = [r for r in ast.walk(g.node) if isinstance(r, ast.Return) and r.value is not None]
    ok = len(rets) == 1
    if ok:
        v = rets[0].value
        ok = isinstance(v, ast.Call) and isinstance(v.func, ast.Attribute) and v.func.attr == "__get__" and is_self_attr(v.func.value, "dispatch", selfname=rv) and [dotted(a) for a in v.args] == ps
    ctx.ob(f"{g.key}:delegates", g.loc(), "binding an overloaded method to an instance is the entry point function's own descriptor binding, with the same instance and class", ok, "the descriptor no longer binds the generated entry point to the instance it was fetched from: self is lost or replaced")


def r4_class_body_merge(ctx):
    repo = ctx.repo
    ns = A.cls_namespace(repo)
    f = ns.methods["__setitem__"]
    ctx.touch(f)
    rv = recv_name(f)
    key = [p for p in f.params if p != rv][0]
    from .c14 import flatten_chain

    chain = flatten_chain(f.node.body)
    first = chain[0] if chain else None
    own_first = False
    if first and first[0] is not None:
        t = first[0]
        own_first = isinstance(t, ast.Compare) and len(t.ops) == 1 and isinstance(t.ops[0], ast.In) and dotted(t.left) == key and dotted(t.comparators[0]) == rv
    ctx.ob(
        f"{f.key}:own-entry-first",
        f.loc(first[2]) if first else f.loc(),
        "a name already defined in this class body is merged with its earlier definitions before anything else is considered",
        own_first,
        "the 'already defined in this class body' case is no longer tested first: a later definition marked extend_super rebuilds the method from the bases and silently drops the earlier same-named definitions of the class body",
    )
    # __prepare__ looks at every attribute the bases offer, inherited ones included
    mc = A.overload_meta(repo)
    p = mc.methods["__prepare__"]
    ctx.touch(p)
    calls = [c for c in ast.walk(p.node) if isinstance(c, ast.Call) and call_name(c) in ("dir", "vars") or (isinstance(c, ast.Attribute) and c.attr == "__dict__")]
    uses_dir = any(isinstance(c, ast.Call) and call_name(c) == "dir" for c in calls)
    shallow = [c for c in calls if not (isinstance(c, ast.Call) and call_name(c) == "dir")]
    whole = any(isinstance(n, ast.For) and dotted(n.iter) in p.params for n in ast.walk(p.node))
    ctx.ob(
        f"{p.key}:inherited-names",
        p.loc(calls[0]) if calls else p.loc(),
        "the metaclass collects candidate method names with dir(base) for every base (inherited attributes included)",
        uses_dir and not shallow and whole,
        "the names to merge are taken from the bases' own bodies only: a class whose bases merely inherit the overloaded method no longer gets the merged overload of all bases",
    )


def r5_to_function_object(ctx):
    repo = ctx.repo
    oc = A.function_class(repo)
    fs = [f for f in oc.module.funcs.values() if f.parent is None and f.cls is None and f.name == "to_ovld"]
    ctx.require(len(fs) == 1, "the conversion helper to_ovld was not found")
    f = fs[0]
    ctx.touch(f)
    rets = [r for r in ast.walk(f.node) if isinstance(r, ast.Return) and r.value is not None]
    ctx.require(rets, f"{f.key}: no return")
    for r in rets:
        v = r.value
        ok = True
        if isinstance(v, ast.Call):
            # a call of the decorator returns the entry-point function, not the function object
            ok = call_name(v) == oc.name
        elif isinstance(v, ast.IfExp):
            ok = isinstance(v.test, ast.Call) and call_name(v.test) == "isinstance" and dotted(v.test.args[1]) == oc.name
        elif isinstance(v, ast.Attribute):
            ok = v.attr == "__ovld__"
        ctx.ob(
            f"{f.key}:return:{short(v, 30)}",
            f.loc(r),
            f"`{short(r, 50)}` hands back a function object ({oc.name}) or None, never the generated entry point",
            ok,
            f"`{short(r, 50)}` returns the entry-point function where callers expect the {oc.name}: a class body that first defines a plain method and then an overloaded one of the same name fails with AttributeError",
        )


def _more(name):
    def run(ctx):
        from . import more

        getattr(more, name)(ctx)

    run.__name__ = name
    return run


RULES = [
    ("C17.R5", "P1", r5_to_function_object, "conversion to a function object yields the function object"),
    ("C17.R11", "P1", lambda ctx: r11_prepare_by_interpretation(ctx), "the metaclass merges inherited methods name by name (interpreted)"),
    ("C17.R4", "P1", r4_class_body_merge, "class-body definitions merge first; inherited names are collected"),
    ("C17.R1", "P1", r1_copy_before_mutate, "copy before mutate"),
    ("C17.R2", "P1", r2_self_threading_agrees, "self threading agrees"),
    ("C17.R3", "P1", r3_descriptor_delegates, "the descriptor delegates to the entry point"),
    ("C17.R6", "P1", _more("definition_merge_overrides"), "later mixins override earlier ones"),
    ("C17.R7", "P1", _more("conversion_leaves_argument_alone"), "conversion to a function object does not mark its argument"),
]


def r11_prepare_by_interpretation(ctx):
    """The metaclass's preparation of the class dictionary, interpreted on stand-in base classes: for every name, the
    entry is a copy of the first base's function object extended by the later bases' `extend_super` ones, with exactly
    the plain functions *of that name* registered into it; names without an extension get no entry."""
    from ..metainterp import HostInterp, Raised, Record

    repo = ctx.repo
    mc = A.overload_meta(repo)
    p = mc.methods["__prepare__"]
    ns = A.cls_namespace(repo)
    oc = A.function_class(repo)
    ctx.touch(p)
    log = []

    class OvStub:
        def __init__(self, label, extend=False, origin=None):
            self.label, self.origin = label, origin
            if extend:
                self._extend_super = True
            self.mixins, self.registered, self.renamed = [], [], None
            self.__ovld__ = self

        def copy(self, mixins=(), **kw):
            c = OvStub(self.label + "'", origin=self)
            c.mixins = list(mixins)
            return c

        def register(self, fn, **kw):
            if self.origin is None:
                log.append(f"{self.label}.register(..) is applied to a base class's own function object")
            self.registered.append(fn)
            return self

        def add_mixins(self, *m):
            if self.origin is None:
                log.append(f"{self.label}.add_mixins(..) is applied to a base class's own function object")
            self.mixins.extend(m)

        def rename(self, name, *a):
            if self.origin is None:
                log.append(f"{self.label}.rename(..) is applied to a base class's own function object")
            self.renamed = name

    class Plain:
        def __init__(self, label):
            self.label = label

        def __repr__(self):
            return self.label

    class BaseStub:
        def __init__(self, **attrs):
            self.__dict__.update(attrs)

        def __dir__(self):
            return list(self.__dict__)

    class DictStub(dict):
        def __init__(self, bases=()):
            super().__init__()

    F1, F2, G1, G2, H1, H2, K2 = OvStub("B1.f"), OvStub("B2.f", True), OvStub("B1.g"), OvStub("B2.g", True), OvStub("B1.h"), OvStub("B2.h"), OvStub("B2.k", True)
    pf, pg, pk = Plain("B3.f"), Plain("B3.g"), Plain("B1.k")
    # (two bases that both define a name without marking it are left out: no statement of the property covers them)
    bases = (BaseStub(f=F1, g=G1, h=H1, k=pk), BaseStub(f=F2, g=G2, k=K2), BaseStub(f=pf, g=pg))
    genv = {oc.name: OvStub, ns.name: DictStub, "inspect": Record(isfunction=lambda x: isinstance(x, Plain))}
    funcs = {n: g.node for n, g in p.module.funcs.items() if g.parent is None and g.cls is None and not g.node.decorator_list}
    hi = HostInterp({}, Record(), {}, globals_env=genv, classes={}, functions=funcs)
    hi.host_types = hi.host_types + (OvStub, Plain, BaseStub, DictStub)
    try:
        d = hi.call_function(p.node, [Record(kind="metaclass"), "Sub", bases], {}, {})
    except Raised as r:
        raise AnalysisError(f"{p.key}: raises {r.what} on consistent base classes")
    problems = list(log)
    if not isinstance(d, dict):
        raise AnalysisError(f"{p.key}: does not return the class dictionary")
    want = {"f": (F1, [F2], [pf]), "g": (G1, [G2], [pg])}
    for name in sorted(set(d) | set(want)):
        if name not in want:
            problems.append(f"an entry is prepared for `{name}` although no later base extends it")
            continue
        if name not in d:
            problems.append(f"no entry is prepared for `{name}` although a later base extends the first base's method")
            continue
        o = d[name]
        o = getattr(o, "__ovld__", o)
        first, mix, plain = want[name]
        if not isinstance(o, OvStub) or o.origin is not first:
            problems.append(f"the entry for `{name}` is not a copy of the first base's function object")
            continue
        if list(o.mixins) != mix:
            problems.append(f"the entry for `{name}` is extended by {[m.label for m in o.mixins]}, the extending bases are {[m.label for m in mix]}")
        if sorted(map(repr, o.registered)) != sorted(map(repr, plain)):
            problems.append(f"the entry for `{name}` has {sorted(map(repr, o.registered))} registered, the plain functions of that name are {sorted(map(repr, plain))}")
        if o.renamed != name:
            problems.append(f"the entry for `{name}` is named {o.renamed!r}")
    ctx.ob(
        f"{p.key}:per-name-merge",
        p.loc(),
        "for every inherited name the prepared entry is a copy of the first base's function object, extended by the later bases' extend_super objects, with exactly that name's plain functions registered and named after it; other names get no entry (interpreted on three stand-in bases and four names)",
        not problems,
        "; ".join(problems[:2]) + ": a class inheriting from several bases gets methods of one name mixed into another, or changes its bases' dispatch",
    )
