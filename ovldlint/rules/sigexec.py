"""The signature extraction (`Signature.extract`), abstractly executed on stand-in function signatures.

Nothing of /repo is imported or run.  `inspect.signature(fn)` answers with a stand-in listing parameters (name, kind,
default, annotation); the parameter kinds and `inspect._empty` are tokens; the normaliser is a stub tagging what it is
given; the record classes (signature, per-argument record) are stubs keeping the values they are constructed with.

Reference (C03 call shapes; C13 / C14 the key function is chosen per real position; C17 self is not dispatched on):
  * positional parameters are numbered 0, 1, .. in the order written, not counting `self`; keyword-only ones have no
    position and carry their name; positional-or-keyword ones carry both;
  * `types` lists the normalised annotations of the positional parameters in order, then (name, annotation) pairs of
    the keyword-only ones; req_pos / max_pos count the positional parameters without / with defaults; req_names are
    the keyword-only parameters without default; `is_method` says whether a leading `self` was dropped;
  * *args / **kwargs are rejected.
"""

import collections

from .. import anchors as A
from ..metainterp import HostFn, HostInterp, Raised, Record
from ..model import AnalysisError

EMPTY = Record(kind="inspect._empty")
KINDS = {k: Record(kind=k) for k in ("_POSITIONAL_ONLY", "_POSITIONAL_OR_KEYWORD", "_KEYWORD_ONLY", "_VAR_POSITIONAL", "_VAR_KEYWORD")}


def P(name, kind, default=False, ann=None):
    return Record(name=name, kind=KINDS[kind], default=("default of " + name) if default else EMPTY, annotation=ann or ("ann of " + name))


SCENARIOS = {
    "function": dict(
        params=[P("po", "_POSITIONAL_ONLY"), P("pk", "_POSITIONAL_OR_KEYWORD", default=True), P("ko", "_KEYWORD_ONLY"), P("kod", "_KEYWORD_ONLY", default=True)],
        want=dict(positions=[(0, None, True), (1, "pk", False), (None, "ko", True), (None, "kod", False)], req_pos=1, max_pos=2, req_names={"ko"}, is_method=False),
    ),
    "method-with-positional-only": dict(
        params=[P("self", "_POSITIONAL_OR_KEYWORD"), P("po", "_POSITIONAL_ONLY"), P("po2", "_POSITIONAL_ONLY", default=True), P("pk", "_POSITIONAL_OR_KEYWORD"), P("ko", "_KEYWORD_ONLY")],
        want=dict(positions=[(0, None, True), (1, None, False), (2, "pk", True), (None, "ko", True)], req_pos=2, max_pos=3, req_names={"ko"}, is_method=True),
    ),
    "method": dict(
        params=[P("self", "_POSITIONAL_OR_KEYWORD"), P("a", "_POSITIONAL_OR_KEYWORD"), P("b", "_POSITIONAL_OR_KEYWORD", default=True)],
        want=dict(positions=[(0, "a", True), (1, "b", False)], req_pos=1, max_pos=2, req_names=set(), is_method=True),
    ),
    "star-args": dict(params=[P("a", "_POSITIONAL_OR_KEYWORD"), P("rest", "_VAR_POSITIONAL")], want="rejected"),
    "star-kwargs": dict(params=[P("a", "_POSITIONAL_OR_KEYWORD"), P("kw", "_VAR_KEYWORD")], want="rejected"),
}


def run(ctx, name):
    repo = ctx.repo
    S = A.signature_class(repo)
    ex = S.methods.get("extract")
    if ex is None:
        raise AnalysisError(f"{S.key}: no extraction method")
    sc = SCENARIOS[name]
    made = {}

    def signature_record(*a, **k):
        if a:
            raise AnalysisError(f"{ex.key}: the signature record is built from positional arguments")
        made.update(k)
        return Record(kind="signature", **k)

    def arginfo(*a, **k):
        fields = ("position", "name", "required", "ann")
        vals = dict(zip(fields, a))
        vals.update(k)
        return Record(kind="arginfo", **vals)

    sig = Record(parameters=collections.OrderedDict((p.name, p) for p in sc["params"]), return_annotation=EMPTY)
    genv = {
        "inspect": Record(signature=HostFn(lambda fn: sig), _empty=EMPTY, **KINDS, Parameter=Record(empty=EMPTY, **{k[1:]: v for k, v in KINDS.items()})),
        "TypeError": Record(kind="TypeError"),
    }
    # stubs by role: the normaliser is the imported callable applied to `<param>.annotation`; the per-argument record is
    # the class constructed with a `position` keyword
    import ast

    from ..model import call_name

    for c in ast.walk(ex.node):
        if isinstance(c, ast.Call) and isinstance(c.func, ast.Name):
            if any(isinstance(a, ast.Attribute) and a.attr in ("annotation", "return_annotation") for a in c.args):
                genv[c.func.id] = HostFn(lambda ann, fn=None: ("N", ann))
            elif any(k.arg == "position" for k in c.keywords) or (repo.resolve_name(ex.module, c.func.id) or ("",))[0] == "class" and c.func.id != S.name:
                genv[c.func.id] = HostFn(arginfo)
    genv[S.name] = HostFn(signature_record)
    funcs = {n: g.node for n, g in ex.module.funcs.items() if g.parent is None and g.cls is None and not g.node.decorator_list}
    hi = HostInterp({}, Record(), {}, globals_env=genv, classes={}, functions=funcs)
    hi.host_types = hi.host_types + (collections.OrderedDict,)
    try:
        hi.call_function(ex.node, [HostFn(signature_record), Record(kind="the function")], {}, {})
    except Raised as r:
        return ex, ("raised", r.what), None
    return ex, ("built", None), made


def check(ctx, name):
    sc = SCENARIOS[name]
    ex, (kind, what), made = run(ctx, name)
    problems = {"positions": [], "counts": [], "types": [], "is-method": [], "rejects-varargs": []}
    want = sc["want"]
    if want == "rejected":
        if kind != "raised" or "TypeError" not in str(what):
            problems["rejects-varargs"].append(f"a signature with {'*args' if name == 'star-args' else '**kwargs'} is {'accepted' if kind == 'built' else 'answered with ' + str(what)} instead of rejected with TypeError")
        return ex, problems
    if kind == "raised":
        for k in ("positions", "counts", "types", "is-method"):
            problems[k].append(f"extraction raises {what}")
        return ex, problems
    infos = made.get("arginfo")
    if not isinstance(infos, (list, tuple)):
        raise AnalysisError(f"{ex.key}: the per-argument records were not found in the signature record")
    got = [(getattr(i, "position", "?"), getattr(i, "name", "?"), bool(getattr(i, "required", None))) for i in infos]
    if got != want["positions"]:
        problems["positions"].append(f"the parameters are recorded as (position, name, required) = {got}, they are {want['positions']}")
    anns = [getattr(i, "ann", None) for i in infos]
    params = [p for p in sc["params"] if p.name != "self"]
    if anns != [("N", p.annotation) for p in params]:
        problems["types"].append("a per-argument record does not carry its own parameter's normalised annotation")
    if (made.get("req_pos"), made.get("max_pos")) != (want["req_pos"], want["max_pos"]) or set(made.get("req_names") or ()) != want["req_names"]:
        problems["counts"].append(f"req_pos / max_pos / req_names are {made.get('req_pos')} / {made.get('max_pos')} / {sorted(made.get('req_names') or ())}, they are {want['req_pos']} / {want['max_pos']} / {sorted(want['req_names'])}")
    want_types = tuple([("N", p.annotation) for p in params if p.kind is not KINDS["_KEYWORD_ONLY"]] + [(p.name, ("N", p.annotation)) for p in params if p.kind is KINDS["_KEYWORD_ONLY"]])
    if tuple(made.get("types") or ()) != want_types:
        problems["types"].append(f"types is {made.get('types')!r}, the annotations in order are {want_types!r}")
    if bool(made.get("is_method")) != want["is_method"]:
        problems["is-method"].append(f"is_method is {made.get('is_method')!r} for a signature {'with' if want['is_method'] else 'without'} a leading self")
    if made.get("vararg"):
        problems["counts"].append("vararg is set for a signature without *args")
    return ex, problems


LAW_TEXT = {
    "positions": ("positional parameters are numbered 0, 1, .. in the order written (not counting self); keyword-only ones have no position; names and required flags are each parameter's own", "the key function and the per-position table are chosen for another position than the argument really arrives at: a class passed for a type[...] parameter is keyed as plain `type`, or a method's arguments are matched one slot off"),
    "counts": ("req_pos / max_pos count the positional parameters without / with defaults, req_names are the keyword-only parameters without default", "a call the method accepts is rejected, or a call it cannot accept reaches it"),
    "types": ("types lists the normalised annotations: positional ones in order, then (name, annotation) for keyword-only ones", "a parameter is dispatched on another parameter's annotation"),
    "is-method": ("is_method says whether a leading self was dropped", "self is dispatched on, or the first real argument is skipped"),
    "rejects-varargs": ("*args and **kwargs are rejected at registration", "a method with *args is registered with a signature that does not describe it"),
}


def law(ctx, *names):
    cache = ctx.cache.setdefault("sig_checked", {})
    for sc in SCENARIOS:
        if sc not in cache:
            cache[sc] = check(ctx, sc)
        ex, probs = cache[sc]
        ctx.touch(ex)
        for name in names:
            if (name == "rejects-varargs") != (SCENARIOS[sc]["want"] == "rejected"):
                continue
            text, why = LAW_TEXT[name]
            ps = probs[name]
            ctx.ob(f"{ex.key}:{name}:{sc}", ex.loc(), f"[{sc}] {text} (extraction abstractly executed on a stand-in signature)", not ps, "; ".join(ps[:2]) + ": " + why)
