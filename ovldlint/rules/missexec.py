"""The cache-miss handler of the multi-position table (`MultiTypeMap.__missing__`), abstractly executed.

Nothing of /repo is imported or run.  `self` is a dictionary stand-in whose misses re-enter the interpreted handler;
`resolve` is a stub that does what the resolution does for one key - store the entry of the bare key, record the code
objects of the applicable methods, store the continuation of one caller, file the ambiguity met by another - and
counts its calls; the error factory returns tokens.

Reference (C07 call_next; C04 / C06 / C19 / C20 share the laws):
  * a continuation key `(code, *types)` first makes sure the bare key is resolved (exactly one resolution when it was
    not cached, none when it was), then: the caller is not among the applicable methods -> the entry of the bare key
    (a fresh call); an ambiguity was filed under the continuation key -> it is raised; a continuation was stored ->
    it is returned; otherwise -> the "no method" error;
  * a bare key is resolved once, then the error filed for it is raised, or the entry stored for it returned;
  * an error met while resolving the bare key on behalf of a continuation propagates.
"""

import ast

from .. import anchors as A
from ..metainterp import HostFn, HostInterp, Raised, Record
from ..model import AnalysisError
from .common import recv_name


class Code(Record):
    def __repr__(self):
        return f"<code {self.name}>"

    __hash__ = object.__hash__


class Table(Record, dict):
    def __init__(self, **kw):
        dict.__init__(self)
        Record.__init__(self, **kw)

    __hash__ = object.__hash__

    def __missing__(self, key):
        return self._on_miss(key)


REAL = ("T1", "T2")


def run(ctx, lookup, precached=False, bare_fails=False, ranked_only=False):
    """-> (outcome, number of resolutions, table) where outcome is ('value', v) or ('raised', v)"""
    repo = ctx.repo
    multi = A.multimap(repo)
    miss = multi.methods["__missing__"]
    from .c10 import resolution_entry

    res = resolution_entry(ctx)
    codes = {n: Code(name=n) for n in ("A", "B", "C", "X")}
    H0, H1 = Record(kind="entry of the bare key"), Record(kind="continuation after A")
    ERR_B, ERR0 = Record(kind="error", what="ambiguity below B"), Record(kind="error", what="ambiguity at the top")
    calls = []

    def fill(me):
        if bare_fails:
            me.errors[REAL] = ERR0
            return
        dict.__setitem__(me, REAL, H0)
        me.all[REAL] = {codes["A"], codes["B"], codes["C"]}
        dict.__setitem__(me, (codes["A"],) + REAL, H1)
        me.errors[(codes["B"],) + REAL] = ERR_B

    def resolve(key):
        calls.append(key)
        if key != REAL:
            raise AnalysisError(f"{miss.key}: resolves {key!r} instead of the bare key")
        fill(me)
        return True

    def key_error(key, group=None, *rest):
        return Record(kind="error", what="no method", key=key, group=group)

    me = Table(errors={}, all={}, empty="<MISSING>", name="tbl")
    setattr(me, res.name, HostFn(resolve))
    factories = set()
    for m in multi.methods.values():
        r = recv_name(m)
        for c in ast.walk(m.node):
            if isinstance(c, ast.Call) and isinstance(c.func, ast.Attribute) and isinstance(c.func.value, ast.Name) and c.func.value.id == r and len(c.args) == 2 and c.func.attr not in multi.methods:
                factories.add(c.func.attr)
    for f in factories:
        setattr(me, f, HostFn(key_error))
    methods = {n: m for n, m in repo.raw_methods(multi).items() if n != res.name}
    funcs = {n: f.node for n, f in miss.module.funcs.items() if f.parent is None and f.cls is None}
    hi = HostInterp(methods, me, {}, globals_env={"CodeType": Code, "MISSING": "<MISSING>"}, classes={}, functions=funcs)
    hi.host_types = hi.host_types + (Table, Code)
    depth = []

    def on_miss(key):
        if len(depth) > 6:
            raise AnalysisError(f"{miss.key}: the miss handler re-enters itself without end")
        depth.append(key)
        try:
            return hi.call_function(methods["__missing__"], [me, key], {}, {})
        finally:
            depth.pop()

    me._on_miss = on_miss
    if precached:
        fill(me)
        dict.pop(me, (codes["A"],) + REAL, None)
    if ranked_only:
        # the candidates were ranked (their code objects recorded) but no entry was stored yet: another thread is in
        # the middle of this resolution, or an earlier one failed after the ranking
        me.all[REAL] = {codes["A"], codes["B"], codes["C"]}
    key = REAL if lookup == "bare" else (codes[lookup],) + REAL
    try:
        out = ("value", me[key])
    except Raised as r:
        out = ("raised", getattr(r, "value", None) or r.what)
    except (KeyError, IndexError, TypeError, AttributeError) as ex:
        # the interpreted handler fails on the stand-ins the way it would on the real table
        out = ("raised", Record(kind="error", what=f"an internal {type(ex).__name__} ({ex})"))
    return out, len(calls), dict(H0=H0, H1=H1, ERR_B=ERR_B, ERR0=ERR0)


def _describe(out):
    kind, v = out
    what = getattr(v, "what", None) or getattr(v, "kind", None) or repr(v)
    return f"{'raises' if kind == 'raised' else 'returns'} {what}"


def check(ctx):
    problems = {"errors-before-no-method": [], "table-before-no-method": [], "forces-bare-resolution": [], "fresh-lookup-fallback": [], "main:errors-before-reread": [], "no-recomputation": []}
    out, n, t = run(ctx, "A")
    if n != 1:
        problems["forces-bare-resolution"].append(f"the first continuation lookup for a type tuple runs {n} resolutions of the bare key instead of one")
    if out != ("value", t["H1"]):
        problems["table-before-no-method"].append(f"the continuation the resolution has just stored is not returned: the lookup {_describe(out)}")
    out, n, t = run(ctx, "B")
    if out != ("raised", t["ERR_B"]):
        problems["errors-before-no-method"].append(f"the ambiguity filed under the continuation key is not raised: the lookup {_describe(out)}")
    out, n, t = run(ctx, "C")
    if not (out[0] == "raised" and getattr(out[1], "what", "") == "no method" and getattr(out[1], "key", None) == REAL and getattr(out[1], "group", None) == ()):
        problems["errors-before-no-method"].append(f"a caller that is the last applicable method does not get the 'no method' error for the argument types: the lookup {_describe(out)}")
    out, n, t = run(ctx, "X")
    if out != ("value", t["H0"]):
        problems["fresh-lookup-fallback"].append(f"a caller that is not applicable to the arguments does not get the entry of the bare key: the lookup {_describe(out)}")
    out, n, t = run(ctx, "C", precached=True)
    if n != 0:
        problems["no-recomputation"].append(f"a continuation lookup for an already resolved type tuple runs the resolution again ({n} times)")
    out, n, t = run(ctx, "X", precached=True)
    if out != ("value", t["H0"]):
        problems["fresh-lookup-fallback"].append(f"with the bare key already resolved, a caller that is not applicable to the arguments does not get the entry of the bare key: the lookup {_describe(out)}")
    out, n, t = run(ctx, "A", ranked_only=True)
    if out != ("value", t["H1"]) or n != 1:
        problems["forces-bare-resolution"].append(f"when the candidates of the type tuple are already recorded but its entries are not stored yet (a resolution under way in another thread, or one that failed after ranking), the continuation lookup {_describe(out)} after {n} resolutions instead of resolving the bare key and returning the continuation")
    out, n, t = run(ctx, "bare")
    if n != 1 or out != ("value", t["H0"]):
        problems["main:errors-before-reread"].append(f"a first lookup of a bare key runs {n} resolutions and {_describe(out)} instead of returning the stored entry after one")
    out, n, t = run(ctx, "bare", bare_fails=True)
    if out != ("raised", t["ERR0"]):
        problems["main:errors-before-reread"].append(f"the ambiguity filed for the bare key is not raised: the lookup {_describe(out)}")
    out, n, t = run(ctx, "A", bare_fails=True)
    if out != ("raised", t["ERR0"]):
        problems["forces-bare-resolution"].append(f"the ambiguity of the bare key does not reach a continuation lookup: it {_describe(out)}")
    return problems


# ------------------------------------------------------------------------------------------- the call without arguments
def check_empty_call(ctx):
    """Interpret `register` for one method and then a lookup of the empty key: -> dict scenario -> problem or None.

    Reference (C03: a call shape an applicable method accepts is not rejected): a method all of whose parameters have
    defaults accepts the call without arguments, like a method without parameters does; a method with a required
    parameter does not."""
    repo = ctx.repo
    multi = A.multimap(repo)
    reg = multi.methods.get("register")
    miss = multi.methods["__missing__"]
    if reg is None:
        raise AnalysisError(f"{multi.key}: no register method")
    init = multi.methods.get("__init__")
    raw = repo.raw_methods(multi)
    out = {}
    scen = {
        "no-parameters": (dict(types=(), req_pos=0, max_pos=0, req_names=frozenset()), True),
        "all-positional-optional": (dict(types=("T",), req_pos=0, max_pos=1, req_names=frozenset()), True),
        "all-keyword-optional": (dict(types=(("k", "T"),), req_pos=0, max_pos=0, req_names=frozenset()), True),
        "one-required": (dict(types=("T",), req_pos=1, max_pos=1, req_names=frozenset()), False),
        "required-keyword": (dict(types=(("k", "T"),), req_pos=0, max_pos=0, req_names=frozenset({"k"})), False),
    }
    for name, (sigv, accepted) in scen.items():
        handler = Record(kind="the method", __name__="m")

        class PerArg(dict):
            def register(self, cls, entry):
                self.setdefault(cls, []).append(entry)

        def key_error(key, group=None, *rest):
            return Record(kind="error", what="no method", key=key, group=group)

        me = Table(name="tbl")
        genv = {"CodeType": Code, "MISSING": "<MISSING>", "is_dependent": lambda t: False, "count": lambda *a: Record(kind="counter"), "math": __import__("math")}
        for c in miss.module.classes.values():
            if c is not multi and "register" in c.methods and "__missing__" in c.methods:
                genv[c.name] = PerArg
        funcs = {n: f.node for n, f in miss.module.funcs.items() if f.parent is None and f.cls is None}
        hi = HostInterp(raw, me, {}, globals_env=genv, classes={}, functions=funcs)
        hi.host_types = hi.host_types + (Table, Code, PerArg)
        me._on_miss = lambda key: hi.call_function(raw["__missing__"], [me, key], {}, {})
        try:
            for st in multi.node.body:
                # class-level defaults (whether sharing them is sound is another rule's business)
                if isinstance(st, ast.Assign) and len(st.targets) == 1 and isinstance(st.targets[0], ast.Name):
                    try:
                        setattr(me, st.targets[0].id, hi.ev(st.value, {}))
                    except AnalysisError:
                        pass
            if init is not None:
                hi.call_function(raw["__init__"], [me] + [HostFn(key_error) if p in ("key_error",) else "<arg>" for p in init.params[1:]], {}, {})
            for f in [a for a, v in me.__dict__.items() if v == "<arg>"]:
                pass
            # the error factory is the constructor argument stored and later called with (key, group)
            for a, v in list(me.__dict__.items()):
                if v == "<arg>":
                    setattr(me, a, HostFn(key_error) if any(isinstance(c, ast.Call) and isinstance(c.func, ast.Attribute) and c.func.attr == a for c in ast.walk(miss.node)) else "tbl")
            sig = Record(vararg=False, priority=0, tiebreak=0, **sigv)
            hi.call_function(raw["register"], [me, sig, handler], {}, {})
            try:
                got = ("value", me[()])
            except Raised as r:
                got = ("raised", getattr(r, "value", None) or r.what)
        except (Raised, TypeError, AttributeError, KeyError) as e:
            raise AnalysisError(f"{reg.key}: registration not interpretable on a stand-in table: {type(e).__name__}: {e}")
        if accepted and got != ("value", handler):
            out[name] = f"the call without arguments {_describe(got)} although the only method has no required parameter"
        elif not accepted and got[0] != "raised":
            out[name] = f"the call without arguments {_describe(got)} although the method requires an argument"
        else:
            out[name] = None
    return reg, out
