"""The rewriter's behaviour on symbolic call sites, obtained by abstract execution (metainterp), and the laws the
properties need from it.  Shared by C01 C03 C07 C08 C09 C14 C17 C20."""

import ast

from .. import anchors as A
from ..metainterp import HostInterp, Raised, Record
from ..model import src, AnalysisError, call_name, dotted, short


def _setup(ctx, is_method, lookup_table):
    repo = ctx.repo
    rw = A.rewriter(repo)
    rc = A.recompiler(repo)
    methods = {}
    for c in reversed(repo.class_mro(rw)):
        for name, m in c.methods.items():
            methods[name] = m.node
    # helpers of the rewriter class that were inlined remain callable for the interpreter
    for st in rw.node.body:
        if isinstance(st, ast.FunctionDef):
            methods.setdefault(st.name, st)
    init = methods.get("__init__")
    ctx.require(init is not None, f"{rw.key} has no __init__")
    ctor = [c for c in ast.walk(rc.node) if isinstance(c, ast.Call) and call_name(c) == rw.name]
    ctx.require(len(ctor) == 1, f"{rc.key}: expected one construction of the rewriter")
    roles = A.rewriter_roles(repo)
    role_of_param = {v[1]: r for r, v in roles.items()}
    iparams = [a.arg for a in init.args.posonlyargs + init.args.args][1:]
    passed = {}
    for i, a in enumerate(ctor[0].args):
        if i < len(iparams):
            passed[iparams[i]] = a
    for k in ctor[0].keywords:
        if k.arg:
            passed[k.arg] = k.value
    # the signature analysis the rewriter consults: which names are positional parameters (position numbers) and
    # which are keyword-only (their own name), as the analyser files them
    analysis = Record(is_method=is_method, name_to_positions={"P0": {0}, "P1": {1}, "P2": {2}, "K0": {"K0"}, "K1": {"K1"}})
    # (read as a value - `lookup_for = self.analysis.lookup_for` - it answers like the call form does)
    from ..metainterp import HostFn

    analysis.lookup_for = HostFn(lambda key: lookup_table.get(key, "TYPE"))
    kwargs = {}
    rparams = rc.params
    def core(e):
        """the name under harmless wrappers: tuple(x) / list(x) / `x or None` / a temporary the model introduced"""
        while True:
            if isinstance(e, ast.Call) and call_name(e) in ("tuple", "list") and len(e.args) == 1 and not e.keywords:
                e = e.args[0]
            elif isinstance(e, ast.BoolOp) and isinstance(e.op, ast.Or) and len(e.values) == 2 and isinstance(e.values[1], ast.Constant) and e.values[1].value is None:
                e = e.values[0]
            elif isinstance(e, ast.Name) and e.id not in rc.params:
                defs = [s_.value for s_ in ast.walk(rc.node) if isinstance(s_, ast.Assign) and len(s_.targets) == 1 and isinstance(s_.targets[0], ast.Name) and s_.targets[0].id == e.id]
                if len(defs) != 1:
                    return e
                e = defs[0]
            else:
                return e

    for p, expr in passed.items():
        role = role_of_param.get(p)
        d = dotted(core(expr))
        if role == "ovld":
            kwargs[p] = "OVLD_G"
        elif role == "map":
            kwargs[p] = "MAP_G"
        elif role == "code":
            kwargs[p] = "CODE_G"
        elif d and d.endswith("argument_analysis"):
            kwargs[p] = analysis
        elif d and len(rparams) > 2 and d == rparams[2]:
            kwargs[p] = ["REC", "SELFNAME"]
        elif d and len(rparams) > 3 and d == rparams[3]:
            kwargs[p] = "CN"
        elif isinstance(core(expr), ast.Constant):
            kwargs[p] = core(expr).value
        else:
            # something else the re-compiler knows about the method (its name, its file): an opaque text
            kwargs[p] = f"<{src(expr)}>"
    self_obj = Record()
    counter = {"n": 0}

    def fresh_counter():
        return Record(kind="counter")

    hi = HostInterp(methods, self_obj, lookup_table, globals_env={"subtler_type": "SUBTLER", "count": fresh_counter, "UsageError": Exception})
    orig_call = hi.call

    def call(e, env):
        if dotted(e.func) == "next" and len(e.args) == 1:
            counter["n"] += 1
            return counter["n"]
        return orig_call(e, env)

    hi.call = call
    hi.call_function(init, [self_obj], kwargs, {})
    return rw, hi, self_obj


def _call_node(callee, args=("A0", "A1"), kws=(("K1", "V1"), ("K0", "V0")), star=False, dstar=False):
    a = [ast.Name(id=x, ctx=ast.Load()) for x in args]
    if star:
        a = [ast.Starred(value=ast.Name(id="XS", ctx=ast.Load()), ctx=ast.Load())]
    k = [ast.keyword(arg=n, value=ast.Name(id=v, ctx=ast.Load())) for n, v in kws]
    if dstar:
        k.append(ast.keyword(arg=None, value=ast.Name(id="KW", ctx=ast.Load())))
    node = ast.Call(func=ast.Name(id=callee, ctx=ast.Load()), args=a, keywords=k)
    for n in ast.walk(node):
        n.lineno = 10
        n.col_offset = 4
    return node


def _is_marker(n, kind, of=None):
    if not (isinstance(n, ast.Name) and n.id.startswith(f"<{kind}:")):
        return False
    return of is None or n.id == f"<{kind}:{ast.dump(of)}>"


class Site:
    """The decoded result of rewriting one recurse / call_next call."""

    def __init__(self, result, node):
        self.result = result
        self.node = node
        self.ok_shape = False
        self.why = ""
        self.temps = []
        self.decode()

    def decode(self):
        r, node = self.result, self.node
        if not isinstance(r, ast.Call) or not isinstance(r.func, ast.Subscript):
            self.why = f"the rewritten node is not a call of a table subscript ({type(r).__name__})"
            return
        self.table = r.func.value.id if isinstance(r.func.value, ast.Name) else None
        sl = r.func.slice
        elts = list(sl.elts) if isinstance(sl, ast.Tuple) else [sl]
        self.code_prefix = None
        if elts and isinstance(elts[0], ast.Name) and not elts[0].id.startswith("<"):
            self.code_prefix = elts.pop(0).id
        self.key_funcs = {}
        npos = len(node.args)
        pos_temps, kw_temps = [], []
        problems = []
        if len(elts) != npos + len(node.keywords):
            problems.append(f"the lookup tuple has {len(elts)} elements for {npos} positional and {len(node.keywords)} keyword arguments")
        for i, a in enumerate(node.args):
            if i >= len(elts):
                break
            t = self._decode_lookup(elts[i], a, i, problems)
            pos_temps.append(t)
        for j, kw in enumerate(node.keywords):
            if npos + j >= len(elts):
                break
            e = elts[npos + j]
            if not (isinstance(e, ast.Tuple) and len(e.elts) == 2 and isinstance(e.elts[0], ast.Constant) and e.elts[0].value == kw.arg):
                problems.append(f"keyword `{kw.arg}` is not keyed as ('{kw.arg}', type)")
                kw_temps.append(None)
                continue
            kw_temps.append(self._decode_lookup(e.elts[1], kw.value, kw.arg, problems))
        self.temps = [t for t in pos_temps + kw_temps if t]
        if len(set(self.temps)) != len(self.temps):
            problems.append("two arguments share one temporary")
        # the call's own arguments
        args = list(r.args)
        self.self_first = bool(args) and isinstance(args[0], ast.Name) and args[0].id == "self"
        if self.self_first:
            args = args[1:]
        got = [a.id if isinstance(a, ast.Name) else None for a in args]
        if got != pos_temps:
            problems.append(f"the call passes {got} where the positional temporaries are {pos_temps}")
        gotk = [(k.arg, k.value.id if isinstance(k.value, ast.Name) else None) for k in r.keywords]
        wantk = [(kw.arg, t) for kw, t in zip(node.keywords, kw_temps)]
        if gotk != wantk:
            problems.append(f"the call passes keywords {gotk} where {wantk} is required")
        self.located = getattr(r, "_copied_from", None) is node
        self.ok_shape = not problems
        self.why = "; ".join(problems)

    def _decode_lookup(self, e, arg, key, problems):
        if not (isinstance(e, ast.Call) and isinstance(e.func, ast.Name) and len(e.args) == 1 and isinstance(e.args[0], ast.NamedExpr)):
            problems.append(f"argument {key!r} is not looked up as <key function>(<temporary> := <argument>)")
            return None
        ne = e.args[0]
        self.key_funcs[key] = e.func.id
        if not _is_marker(ne.value, "visited", arg):
            problems.append(f"the temporary of argument {key!r} is not assigned the (recursively rewritten) argument expression")
        if not isinstance(ne.target, ast.Name):
            problems.append(f"the temporary of argument {key!r} is not a name")
            return None
        return ne.target.id


def rewrite(ctx, callee, is_method=False, lookup=None, **shape):
    rw, hi, self_obj = _setup(ctx, is_method, lookup or {})
    node = _call_node(callee, **shape)
    try:
        res = hi.call_method("visit_Call", node)
    except Raised as r:
        return rw, node, ("raised", r.what), hi
    return rw, node, res, hi


def scenario_table(ctx):
    """All scenarios used by the rules, computed once per run."""
    if "rewriter_scenarios" in ctx.cache:
        return ctx.cache["rewriter_scenarios"]
    out = {}
    for name, callee in (("recurse", "REC"), ("self-name", "SELFNAME"), ("call_next", "CN")):
        for is_method in (False, True):
            rw, node, res, hi = rewrite(ctx, callee, is_method=is_method, lookup={0: "SUBTLER", "K0": "SUBTLER"})
            out[(name, is_method)] = (node, res)
    # two successive call sites at the same source position: temporaries must not collide
    rw, hi, self_obj = _setup(ctx, False, {})
    n1, n2 = _call_node("REC"), _call_node("REC")
    r1 = hi.call_method("visit_Call", n1)
    r2 = hi.call_method("visit_Call", n2)
    out["two-sites"] = ((n1, r1), (n2, r2))
    rw, hi, self_obj = _setup(ctx, True, {})
    n1, n2 = _call_node("REC"), _call_node("REC")
    out["two-sites-method"] = ((n1, hi.call_method("visit_Call", n1)), (n2, hi.call_method("visit_Call", n2)))
    # shapes that must be left to the generic path
    for name, kw in (("other-callee", dict()), ("starred", dict(star=True)), ("double-star", dict(dstar=True))):
        callee = "foo" if name == "other-callee" else "REC"
        rw, node, res, hi = rewrite(ctx, callee, **kw)
        out[name] = (node, res)
    for name, kw in (("cn-starred", dict(star=True)), ("cn-double-star", dict(dstar=True))):
        rw, node, res, hi = rewrite(ctx, "CN", **kw)
        out[name] = (node, res)
    # a positional-or-keyword parameter given by keyword: f(a0, P1=v)
    for name, callee in (("kw-names-positional", "REC"), ("cn-kw-names-positional", "CN")):
        rw, node, res, hi = rewrite(ctx, callee, lookup={1: "SUBTLER"}, args=("A0",), kws=(("P1", "V1"),))
        out[name] = (node, res)
    # ... and out of positional order: f(P1=v1, P0=v0)
    for name, callee in (("kw-names-positional-out-of-order", "REC"), ("cn-kw-names-positional-out-of-order", "CN")):
        rw, node, res, hi = rewrite(ctx, callee, args=(), kws=(("P1", "V1"), ("P0", "V0")))
        out[name] = (node, res)
    # ... and behind a keyword-only argument: f(a0, K0=v0, P1=v1)
    rw, node, res, hi = rewrite(ctx, "REC", args=("A0",), kws=(("K0", "V0"), ("P1", "V1")))
    out["kw-names-positional-behind-keyword-only"] = (node, res)
    # bare references inside a method
    for name, ident in (("method-name-recurse", "REC"), ("method-name-self", "SELFNAME")):
        rw, hi, self_obj = _setup(ctx, True, {})
        nm = ast.Name(id=ident, ctx=ast.Load())
        nm.lineno, nm.col_offset = 3, 0
        try:
            res = hi.call_method("visit_Name", nm)
        except Raised as r:
            res = ("raised", r.what)
        out[name] = (nm, res)
    # bare references
    for name, ident in (("name-recurse", "REC"), ("name-self", "SELFNAME"), ("name-call_next", "CN"), ("name-other", "foo")):
        rw, hi, self_obj = _setup(ctx, False, {})
        nm = ast.Name(id=ident, ctx=ast.Load())
        nm.lineno, nm.col_offset = 3, 0
        try:
            res = hi.call_method("visit_Name", nm)
        except Raised as r:
            res = ("raised", r.what)
        out[name] = (nm, res)
    ctx.cache["rewriter_scenarios"] = out
    ctx.cache["rewriter_class"] = rw
    return out


def rw_loc(ctx):
    rw = A.rewriter(ctx.repo)
    vc = rw.methods.get("visit_Call")
    return (vc or rw), (vc.loc() if vc else rw.loc())


# ------------------------------------------------------------------------------------------------ laws
SCEN = (("recurse", "recurse(a0, a1, k1=v1, k0=v0)"), ("self-name", "<own name>(a0, a1, k1=v1, k0=v0)"), ("call_next", "call_next(a0, a1, k1=v1, k0=v0)"))


def _sites(ctx):
    t = scenario_table(ctx)
    out = {}
    for (name, _), (is_method) in [((n, d), m) for n, d in SCEN for m in (False, True)]:
        node, res = t[(name, is_method)]
        out[(name, is_method)] = (node, res, Site(res, node) if isinstance(res, ast.Call) else None)
    return t, out


def law_each_argument_once(ctx):
    """C09.R3 / C01.R4 / C08.R5: each argument expression is evaluated once, in order, into its own temporary, keyed
    and passed from that temporary; nested calls inside arguments are rewritten too."""
    m, loc = rw_loc(ctx)
    ctx.touch(m)
    t, sites = _sites(ctx)
    for (name, is_method), (node, res, s) in sites.items():
        if is_method:
            continue
        desc = dict(SCEN)[name]
        ok = s is not None and s.ok_shape
        ctx.ob(
            f"{m.key}:rewrite:{name}",
            loc,
            f"`{desc}` is rewritten into TABLE[(type(t0 := a0), type(t1 := a1), ('k1', type(tk1 := v1)), ('k0', type(tk0 := v0)))](t0, t1, k1=tk1, k0=tk0): every argument evaluated once, in the order written (keywords too), passed from its own temporary (abstractly executed)",
            ok,
            (s.why if s is not None else f"the call is not rewritten into a table lookup (result: {res if isinstance(res, tuple) else type(res).__name__})") + ": an argument is evaluated twice, dropped, reordered or passed under another name",
        )
    (n1, r1), (n2, r2) = t["two-sites"]
    s1, s2 = (Site(r1, n1) if isinstance(r1, ast.Call) else None), (Site(r2, n2) if isinstance(r2, ast.Call) else None)
    disjoint = s1 is not None and s2 is not None and s1.temps and not (set(s1.temps) & set(s2.temps))
    ctx.ob(
        f"{m.key}:temp:fresh-prefix",
        loc,
        "two rewritten call sites (even at the same source position / nesting depth) use disjoint temporaries",
        bool(disjoint),
        f"two call sites share the temporaries {sorted(set(s1.temps) & set(s2.temps)) if s1 and s2 else '?'}: a recurse/call_next call nested in an argument of another one overwrites the outer call's temporaries after its types were taken, and the selected method runs on the inner call's arguments",
    )


def law_method_sites(ctx):
    """C17: in a method, each argument of a rewritten recurse / call_next call is evaluated once into its own
    temporary and passed from it after the instance; two sites never share temporaries (a nested call would run the
    selected method, bound to self, on the inner call's arguments)."""
    m, loc = rw_loc(ctx)
    ctx.touch(m)
    t, sites = _sites(ctx)
    for (name, is_method), (node, res, s) in sites.items():
        if not is_method:
            continue
        ok = s is not None and s.ok_shape and s.self_first
        ctx.ob(
            f"{m.key}:rewrite-in-method:{name}",
            loc,
            f"in a method, `{dict(SCEN)[name]}` becomes a table lookup called with self and then every argument from its own temporary, each evaluated once in the order written (abstractly executed)",
            ok,
            (s.why if s is not None and not s.ok_shape else "the instance is not passed first" if s is not None else "the call is not rewritten into a table lookup") + ": the next method, bound to the instance, runs on other values than the ones written at the call",
        )
    (n1, r1), (n2, r2) = t["two-sites-method"]
    s1, s2 = (Site(r1, n1) if isinstance(r1, ast.Call) else None), (Site(r2, n2) if isinstance(r2, ast.Call) else None)
    disjoint = s1 is not None and s2 is not None and s1.temps and not (set(s1.temps) & set(s2.temps))
    ctx.ob(
        f"{m.key}:temp:fresh-prefix:method",
        loc,
        "two rewritten call sites of a method (even at the same source position) use disjoint temporaries",
        bool(disjoint),
        f"two call sites share the temporaries {sorted(set(s1.temps) & set(s2.temps)) if s1 and s2 else '?'}: a recurse/call_next call nested in an argument of another one overwrites the outer call's temporaries, and the method selected for the outer call runs on the bound instance with the inner call's values",
    )


def law_locations(ctx):
    """C09.R2 (rewriter half): every replacement node takes the location of the node it replaces."""
    m, loc = rw_loc(ctx)
    t, sites = _sites(ctx)
    for (name, is_method), (node, res, s) in sites.items():
        if is_method or name == "self-name":
            continue
        ctx.ob(f"{m.key}:location:{name}", loc, f"the node replacing a `{name}(...)` call carries the location of the call it replaces", s is not None and s.located, "the replacement call is returned without the location of the original call: fix_missing_locations gives it its parent's position and tracebacks through the call point at the wrong line/column")
    nm, res = t["name-recurse"]
    ok = isinstance(res, ast.Name) and getattr(res, "_copied_from", None) is nm
    ctx.ob(f"{m.key}:location:name", loc, "the name replacing a bare `recurse` reference carries the location of the original name", ok, "the replacement name loses the original location")


def law_call_shapes(ctx):
    """C09.R4: calls the per-argument rewrite cannot express are handed to the generic path with their children
    visited; call_next(*args) stays a known finding while the generic path rejects the bare call_next symbol."""
    m, loc = rw_loc(ctx)
    t = scenario_table(ctx)
    texts = {
        "other-callee": ("a call of anything else is left alone (children visited)", "calls that are not recurse / call_next are no longer passed through the generic visit"),
        "starred": ("a call with *args is left to the generic path (not rewritten with per-argument temporaries)", "a starred positional argument reaches the per-argument rewrite: `recurse(*xs)` is keyed by type(xs) as if it were one argument"),
        "double-star": ("a call with **kwargs is left to the generic path", "a double-starred keyword argument reaches the per-argument rewrite: `recurse(a, **kw)` is looked up under the key (None, dict) and no method matches"),
    }
    for name, (text, why) in texts.items():
        node, res = t[name]
        ok = _is_marker(res, "generic_visit", node)
        extra = ""
        if isinstance(res, ast.Call) and not isinstance(res.func, ast.Subscript):
            extra = " (the call is returned without visiting its children: recurse / self references inside it stay unrewritten)"
        if res is node:
            extra = " (the node is returned as is: recurse references in the callee or in nested arguments are left unrewritten)"
        ctx.ob(f"{m.key}:bail-out:{name}", loc, text, ok, why + extra)
    # a keyword that names a positional parameter must not be filed by name
    def filed_by_name(res, names):
        return isinstance(res, ast.Call) and isinstance(res.func, ast.Subscript) and any(isinstance(e, ast.Tuple) and e.elts and isinstance(e.elts[0], ast.Constant) and e.elts[0].value in names for e in ast.walk(res.func.slice))

    def filed_by_position(res, node, is_cn):
        """rewritten as f(a0, v1): two positional key elements in source order, position 1 keyed by the selector's choice
        for position 1, both passed positionally from their temporaries"""
        if not (isinstance(res, ast.Call) and isinstance(res.func, ast.Subscript)):
            return None
        elts = list(res.func.slice.elts) if isinstance(res.func.slice, ast.Tuple) else [res.func.slice]
        if is_cn and elts and isinstance(elts[0], ast.Name):
            elts = elts[1:]
        srcs = [node.args[0], node.keywords[0].value]
        if len(elts) != 2 or res.keywords:
            return False
        temps = []
        for e, a in zip(elts, srcs):
            if not (isinstance(e, ast.Call) and isinstance(e.func, ast.Name) and len(e.args) == 1 and isinstance(e.args[0], ast.NamedExpr) and _is_marker(e.args[0].value, "visited", a)):
                return False
            temps.append(e.args[0].target.id)
        if elts[1].func.id != "__SUBTLER_TYPE" and elts[1].func.id != "SUBTLER" and "SUBTLER" not in elts[1].func.id.upper():
            return False
        passed = [x.id for x in res.args if isinstance(x, ast.Name) and x.id != "self"]
        return passed == temps

    for which, is_cn in (("kw-names-positional", False), ("cn-kw-names-positional", True)):
        node, res = t[which]
        fp = filed_by_position(res, node, is_cn)
        if fp is not None:
            ctx.ob(
                f"{m.key}:keyword-names-positional-filed-by-position:{'call_next' if is_cn else 'recurse'}",
                loc,
                "a positional parameter given by keyword right after the positional arguments is evaluated in source order, keyed by the key function of its position and passed positionally",
                fp,
                "the keyword is moved into a positional slot but keyed with another position's key function, evaluated out of order or passed from another temporary",
            )
    node, res = t["kw-names-positional-out-of-order"]
    ctx.ob(
        f"{m.key}:bail-out:keyword-names-positional-out-of-order",
        loc,
        "recurse(p1=v1, p0=v0) (positional parameters by keyword, not in positional order) is left to the entry point",
        _is_marker(res, "generic_visit", node) or not filed_by_name(res, ("P0", "P1")),
        "the rewritten call files positional parameters under their names: no method is filed that way",
    )
    node, res = t["kw-names-positional-behind-keyword-only"]
    ctx.ob(
        f"{m.key}:bail-out:keyword-names-positional-behind-keyword-only",
        loc,
        "recurse(a0, k0=v0, p1=v1) (a positional parameter by keyword, written after a keyword-only argument) is left to the entry point",
        _is_marker(res, "generic_visit", node) or not filed_by_name(res, ("P1",)),
        "the rewritten call files the positional parameter under its name, as if it were keyword-only: no method is filed that way, so recurse ends in 'No method' where the same call of the function works",
    )
    node, res = t["cn-kw-names-positional-out-of-order"]
    cn_ooo = filed_by_name(res, ("P0", "P1"))
    ctx.ob(
        f"{m.key}:call_next-keyword-names-positional-out-of-order-{'by-name' if cn_ooo else 'handled'}",
        loc,
        "call_next(p1=v1, p0=v0) does not file positional parameters under their names",
        not cn_ooo,
        "call_next files positional parameters given by keyword out of positional order under their names: no continuation entry matches and the call ends in 'No method'",
    )
    node, res = t["kw-names-positional"]
    by_name = isinstance(res, ast.Call) and isinstance(res.func, ast.Subscript) and any(isinstance(e, ast.Tuple) and e.elts and isinstance(e.elts[0], ast.Constant) and e.elts[0].value == "P1" for e in ast.walk(res.func.slice))
    ctx.ob(
        f"{m.key}:bail-out:keyword-names-positional",
        loc,
        "recurse(a, p=v) where p is a positional-or-keyword parameter is not looked up under the name p (the table files it by position): it is left to the entry point or filed by position",
        not by_name,
        "the rewritten call looks the method up under ('p', type): no method is filed that way, so the call ends in 'No method' although calling the function with p=v works",
    )
    node, res = t["cn-kw-names-positional"]
    cn_by_name = isinstance(res, ast.Call) and isinstance(res.func, ast.Subscript) and any(isinstance(e, ast.Tuple) and e.elts and isinstance(e.elts[0], ast.Constant) and e.elts[0].value == "P1" for e in ast.walk(res.func.slice))
    ctx.ob(
        f"{m.key}:call_next-keyword-names-positional-{'by-name' if cn_by_name else 'handled'}",
        loc,
        "call_next(a, p=v) where p is a positional-or-keyword parameter is not looked up under the name p",
        not cn_by_name,
        "call_next files a positional parameter given by keyword under its name: no continuation entry matches and the call ends in 'No method'",
    )
    # inside a method a reference that is not a direct call is bound to self
    bound = []
    for which in ("method-name-recurse", "method-name-self"):
        nm_, r_ = t[which]
        ok_b = isinstance(r_, ast.Call) and isinstance(r_.func, ast.Attribute) and r_.func.attr == "__get__" and isinstance(r_.func.value, ast.Name) and r_.func.value.id == "OVLD_G" and len(r_.args) == 1 and isinstance(r_.args[0], ast.Name) and r_.args[0].id == "self"
        ok_b = ok_b or (isinstance(r_, ast.Call) and call_name(r_) in ("functools.partial", "partial") and len(r_.args) == 2 and isinstance(r_.args[0], ast.Name) and r_.args[0].id == "OVLD_G" and isinstance(r_.args[1], ast.Name) and r_.args[1].id == "self")
        bound.append(ok_b)
    ctx.ob(
        f"{m.key}:method-reference-bound-to-self",
        loc,
        "in a method, recurse (or the own name) used as a value, or called through the generic path (*args, **kwargs), stands for the function bound to self",
        all(bound),
        "the reference is replaced by the bare entry point: map(recurse, xs) or recurse(*xs) inside a method runs without self",
    )
    accepted = True
    node, res = t["cn-starred"]
    nm, nres = t["name-call_next"]
    if _is_marker(res, "generic_visit", node) and isinstance(nres, tuple) and nres[0] == "raised":
        accepted = False
    ctx.ob(
        f"{m.key}:starred-call_next-{'accepted' if accepted else 'rejected'}",
        loc,
        "call_next(*args) / call_next(**kw), valid placements, are accepted",
        accepted,
        "a starred call_next is sent to the generic path, where the bare call_next symbol is rejected: a syntactically valid call_next(*args) makes the build fail with UsageError",
    )


def law_code_key(ctx):
    """C07.R2: the method's own code key is prepended iff the callee is call_next; a bare call_next is rejected."""
    m, loc = rw_loc(ctx)
    ctx.touch(m)
    t, sites = _sites(ctx)
    bad = []
    for (name, is_method), (node, res, s) in sites.items():
        if s is None:
            bad.append(f"{name} is not rewritten")
            continue
        want = "CODE_G" if name == "call_next" else None
        if s.code_prefix != want:
            bad.append(f"{name}: lookup {'is' if s.code_prefix else 'is not'} prefixed by the method's code key")
    ctx.ob(
        f"{m.key}:code-key-iff-call_next",
        loc,
        "the rewriter prepends the method's own code key to the lookup exactly when the callee is the call_next symbol (recurse, own name and call_next abstractly executed)",
        not bad,
        "; ".join(bad) + ": recurse would skip ranks, or call_next would restart from the top (infinite recursion)",
    )
    nm, nres = t["name-call_next"]
    raised = isinstance(nres, tuple) and nres[0] == "raised"
    ctx.ob(
        f"{m.key}:bare-call_next-rejected",
        loc,
        "a reference to call_next that is not a direct call is rejected when the method is built",
        raised,
        "a bare reference to call_next is silently rewritten: the alias then starts a fresh dispatch instead of continuing below the current method",
    )


def law_self_first(ctx):
    m, loc = rw_loc(ctx)
    t, sites = _sites(ctx)
    bad = [f"{name} (method={is_method})" for (name, is_method), (node, res, s) in sites.items() if s is None or s.self_first != is_method]
    ctx.ob(f"{m.key}:self-first", loc, "rewritten recurse/call_next calls pass `self` first exactly for methods", not bad, f"{', '.join(bad)}: rewritten call sites of a method do not pass the instance (or pass one for a plain function): the next method receives the first argument as self")


def law_key_functions(ctx):
    """C14.R2 (rewriter half): the key function of every argument is the one the per-position selector chose."""
    m, loc = rw_loc(ctx)
    t, sites = _sites(ctx)
    # what the emitted helper names denote: the re-compiler plants them in the method's globals
    rc = A.recompiler(ctx.repo)
    sub = A.subtler_fn(ctx.repo)
    denotes = {"type": "type"}
    for st in ast.walk(rc.node):
        if isinstance(st, ast.Assign) and len(st.targets) == 1 and isinstance(st.targets[0], ast.Subscript) and isinstance(st.targets[0].value, ast.Attribute) and st.targets[0].value.attr == "__globals__" and isinstance(st.targets[0].slice, ast.Constant) and isinstance(st.value, ast.Name):
            denotes[st.targets[0].slice.value] = st.value.id
    bad = []
    for (name, is_method), (node, res, s) in sites.items():
        if s is None:
            continue
        kf = {k: denotes.get(v, v) for k, v in s.key_funcs.items()}
        # the table given to the scenarios: position 0 and keyword K0 are type-valued, position 1 is not
        if kf.get(1) != "type" or kf.get(0) != sub.name or kf.get("K0") != sub.name:
            bad.append(f"{name} (method={is_method}): key functions {s.key_funcs} (denoting {kf})")
    ctx.ob(
        f"{m.key}:key-selector",
        loc,
        "rewritten call sites key each argument with the function the per-position selector chose for that position / keyword name (selector table: 0 and 'k0' type-valued, 1 plain)",
        not bad,
        "; ".join(bad[:2]) + ": recurse/call_next key type-valued arguments differently from the entry point (a class passed at that position is looked up as its metaclass, or the reverse)",
    )


def law_helper_names_private(ctx):
    """C09: the helper names a rewritten call site uses are planted by the re-compiler under names no method body
    binds by accident (a builtin's name can be a parameter or local of the method)."""
    m, loc = rw_loc(ctx)
    t, sites = _sites(ctx)
    rc = A.recompiler(ctx.repo)
    planted = set()
    for st in ast.walk(rc.node):
        if isinstance(st, ast.Assign) and len(st.targets) == 1 and isinstance(st.targets[0], ast.Subscript) and isinstance(st.targets[0].value, ast.Attribute) and st.targets[0].value.attr == "__globals__" and isinstance(st.targets[0].slice, ast.Constant):
            planted.add(st.targets[0].slice.value)
    used = set()
    for (name, is_method), (node, res, s) in sites.items():
        if s is not None:
            used |= set(s.key_funcs.values())
    loose = sorted(n for n in used if n not in planted)
    ctx.ob(
        f"{m.key}:helper-names-planted",
        loc,
        f"every helper a rewritten call site calls ({', '.join(sorted(used))}) is a global planted by the re-compiler",
        not loose,
        f"the rewritten site calls {loose} by a name the re-compiler does not plant: a parameter or local of the method with that name (`def f(x, type=...)`) is called instead",
    )


def law_table_subscript(ctx):
    m, loc = rw_loc(ctx)
    t, sites = _sites(ctx)
    bad = [name for (name, is_method), (node, res, s) in sites.items() if s is None or s.table != "MAP_G"]
    ctx.ob(f"{m.key}:emits-subscript", loc, "rewritten recurse/call_next sites subscript the per-function table global", not bad, f"{', '.join(sorted(set(bad)))}: the rewritten site does not subscript the table global: every call re-enters resolution code (or another function's table)")


def law_all_names(ctx):
    """C08: every name under which the method refers to its function is rewritten (calls and bare references)."""
    m, loc = rw_loc(ctx)
    t, sites = _sites(ctx)
    ok_call = sites[("self-name", False)][2] is not None
    nm, res = t["name-self"]
    ok_name = isinstance(res, ast.Name) and res.id == "OVLD_G"
    nm2, res2 = t["name-recurse"]
    ok_rec = isinstance(res2, ast.Name) and res2.id == "OVLD_G"
    nm3, res3 = t["name-other"]
    ok_other = res3 is nm3 or (isinstance(res3, ast.Name) and res3.id == "foo")
    ctx.ob(f"{m.key}:every-self-reference", loc, "calls through recurse and through the function's own name, and bare references to either, are all redirected to the per-function global; other names are untouched", ok_call and ok_name and ok_rec and ok_other, "only some of the names under which a method refers to its function are rewritten: the leftover one raises UsageError or re-enters the function the method was first registered in")


def law_own_definition_is_entered(ctx):
    """C08 / C09: the method being rewritten is a definition named like its function (the own name is one of the names
    to rewrite): whatever the rewriter does with nested definitions that shadow a name, the method's own definition is
    entered - its body is visited."""
    m, loc = rw_loc(ctx)
    rw = A.rewriter(ctx.repo)
    special = [k for k in ("visit_FunctionDef", "visit_AsyncFunctionDef", "visit_Lambda", "visit_ClassDef", "visit") if k in rw.methods]
    if not special:
        ctx.ob(f"{rw.key}:own-definition-entered", loc, "definitions get no special treatment by the rewriter (the default visit enters them)", True)
        return
    for k in special:
        if k not in ("visit_FunctionDef", "visit_AsyncFunctionDef"):
            continue
        ctx.touch(rw.methods[k])
        rwc, hi, self_obj = _setup(ctx, False, {})
        body = ast.parse("def SELFNAME(x, y=1):\n    return SELFNAME(x - 1)\n").body[0]
        if k == "visit_AsyncFunctionDef":
            body = ast.parse("async def SELFNAME(x, y=1):\n    return SELFNAME(x - 1)\n").body[0]
        try:
            res = hi.call_method(k, body)
        except Raised as r:
            res = ("raised", r.what)
        entered = _is_marker(res, "generic_visit", body) or _is_marker(res, "visited", body)
        if not entered and isinstance(res, (ast.FunctionDef, ast.AsyncFunctionDef)):
            # the body statements were visited one by one
            entered = all(any(_is_marker(x, "visited") or _is_marker(x, "generic_visit") for x in ast.walk(st)) or _is_marker(st, "visited") for st in res.body) and res.body is not body.body or any(_is_marker(x, "visited") or _is_marker(x, "generic_visit") for st in res.body for x in ast.walk(st))
        ctx.ob(
            f"{rw.methods[k].key}:own-definition-entered",
            rw.methods[k].loc(),
            f"`{k}` enters the definition of the method itself (a definition named like the function, whose name is one of the names being rewritten)",
            bool(entered),
            "the method's own definition is taken for a definition that shadows the name and is returned unvisited: nothing in the method is rewritten - its self-reference stays bound to whatever the global name means later (a variant defined under the same name), and a method that also uses recurse fails with UsageError",
        )
