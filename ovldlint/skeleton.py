"""Emission skeletons: read the code generators' templates as parsed Python with named holes.

The generators are never called.  A template is either a str.format template (`{name}` holes) or an
f-string (holes are the formatted expressions).  Holes become identifiers `__H<k>__` so the result parses,
and a side table remembers what each hole stands for.
"""

import ast
import re
import textwrap

from .model import AnalysisError, src, str_value


class Skeleton:
    def __init__(self, text, holes, origin=None):
        self.text = text          # python source with __Hk__ placeholders
        self.holes = holes        # placeholder -> hole expression source (f-string) or format field name
        self.origin = origin      # ast node the template came from
        self._tree = None

    @property
    def tree(self):
        if self._tree is None:
            try:
                self._tree = ast.parse(textwrap.dedent(self.text))
            except SyntaxError as e:
                raise AnalysisError(f"emitted template does not parse as Python: {self.text!r}: {e}")
        return self._tree

    def hole_of(self, ident):
        """Hole expressions making up an identifier such as HANDLER__H2__ or __H3____H4__ (in order)."""
        return [self.holes[m] for m in re.findall(r"__H\d+__", ident)]

    def literal_of(self, ident):
        return re.sub(r"__H\d+__", "§", ident)


def from_format(template, origin=None):
    holes = {}

    def rep(m):
        k = f"__H{len(holes)}__"
        # same field -> same placeholder
        for kk, vv in holes.items():
            if vv == m.group(1):
                return kk
        holes[k] = m.group(1)
        return k

    text = re.sub(r"\{(\w+)\}", rep, template.replace("{{", "\x00").replace("}}", "\x01"))
    text = text.replace("\x00", "{").replace("\x01", "}")
    return Skeleton(text, holes, origin)


def from_fstring(node, fnode=None):
    s = str_value(node, fnode)
    if s is None:
        raise AnalysisError(f"line {getattr(node, 'lineno', '?')}: emitted fragment is not a string literal or f-string: {src(node)}")
    holes = {}

    def rep(m):
        expr = m.group(1)
        for kk, vv in holes.items():
            if vv == expr:
                return kk
        k = f"__H{len(holes)}__"
        holes[k] = expr
        return k

    text = re.sub(r"§([^§]*)§", rep, s)
    return Skeleton(text, holes, node)


class Emit:
    """One `sink.append(<template>)` in a generator, with the control context it sits in."""

    def __init__(self, node, arg, sink, ctx_stack, fnode=None):
        self.fnode = fnode
        self.node = node          # the Call node
        self.arg = arg            # template expression
        self.sink = sink          # name of the list
        self.ctx = ctx_stack      # list of ('if', test, branch) / ('for', For node)
        self._sk = None

    @property
    def skeleton(self):
        if self._sk is None:
            self._sk = from_fstring(self.arg, self.fnode)
        return self._sk

    @property
    def loops(self):
        return [c[1] for c in self.ctx if c[0] == "for"]

    @property
    def conds(self):
        return [(src(c[1]), c[2]) for c in self.ctx if c[0] == "if"]


def emissions(fnode, sinks=None, strings_only=True):
    """All `<name>.append(x)` / `<name>.add(x)` statements of the generator's own body, in source order,
    with their enclosing if/for context."""
    out = []

    def rec(stmts, stack):
        for st in stmts:
            if isinstance(st, ast.Expr) and isinstance(st.value, ast.Call):
                c = st.value
                if (
                    isinstance(c.func, ast.Attribute)
                    and c.func.attr in ("append", "add")
                    and isinstance(c.func.value, ast.Name)
                    and len(c.args) == 1
                    and (sinks is None or c.func.value.id in sinks)
                    and (not strings_only or str_value(c.args[0], fnode) is not None)
                ):
                    out.append(Emit(c, c.args[0], c.func.value.id, list(stack), fnode))
            elif isinstance(st, ast.If):
                rec(st.body, stack + [("if", st.test, True)])
                rec(st.orelse, stack + [("if", st.test, False)])
            elif isinstance(st, (ast.For, ast.While)):
                rec(st.body, stack + [("for", st)])
                rec(st.orelse, stack)
            elif isinstance(st, ast.Try):
                rec(st.body, stack)
                for h in st.handlers:
                    rec(h.body, stack)
                rec(st.orelse, stack)
                rec(st.finalbody, stack)
            elif isinstance(st, ast.With):
                rec(st.body, stack)

    rec(fnode.body, [])
    return out
