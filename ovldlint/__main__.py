import json
import os
import sys

from .report import run_property, VERIF
from .rules import PROPS, rules_for


def main(argv):
    if len(argv) >= 2 and argv[0] == "explain":
        with open(argv[1]) as f:
            v = json.load(f)
        print(f"property {v['property']}  rule {v['rule']}  key {v['key']}")
        print(f"at {v['loc']}")
        print(f"obligation: {v['obligation']}")
        print(f"failure: {v.get('detail','')}")
        print("re-running the rule on the current tree:")
        rules = [r for r in rules_for(v["property"]) if r[0] == v["rule"]]
        from .model import Repo, AnalysisError
        from .report import Ctx

        try:
            ctx = Ctx(Repo(), v["property"], "thorough")
            for rid, tag, fn, title in rules:
                ctx.rule = rid
                fn(ctx)
            hit = [o for o in ctx.obs if o.key == v["key"]]
            for o in hit:
                print(f"  {o.loc} {'ok' if o.ok else 'FAILS'}: {o.text} {o.detail}")
            if not hit:
                print("  the construct is no longer present")
            return 1 if any(not o.ok for o in hit) else 0
        except AnalysisError as e:
            print(f"ANALYSIS-ERROR {e}")
            return 2
    if len(argv) < 1:
        print("usage: check <Cxx|all> [quick|thorough] | check explain <violation.json>")
        return 2
    prop = argv[0]
    tier = argv[1] if len(argv) > 1 else os.environ.get("VERIF_TIER", "quick")
    if tier not in ("quick", "thorough"):
        tier = "quick"
    props = PROPS if prop == "all" else [prop]
    worst = 0
    for p in props:
        rules = rules_for(p)
        if rules is None:
            if prop == "all":
                continue
            print(f"ANALYSIS-ERROR property={p} no rules implemented")
            return 2
        rc = run_property(p, tier, rules)
        worst = max(worst, rc) if rc != 1 else (1 if worst != 2 else 2)
        if rc == 1 and worst == 0:
            worst = 1
    return worst


if __name__ == "__main__":
    try:
        rc = main(sys.argv[1:])
    except BaseException as e:  # a broken checker must never look like a violation (exit 1)
        if isinstance(e, SystemExit):
            raise
        print(f"ANALYSIS-ERROR checker failure: {type(e).__name__}: {e}")
        rc = 2
    sys.exit(rc)
