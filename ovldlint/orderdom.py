"""Finite-domain interpreter for small decision procedures of the package.

It evaluates a function body (an ast) under an environment in which every input ranges over a small finite
domain that the caller enumerates completely:
  * the four members of the Order enum ('LESS' 'MORE' 'SAME' 'NONE'), frozensets / tuples / lists of values,
  * booleans, None, small opaque tokens (strings) standing for types,
  * calls to named functions / methods are answered by caller-supplied stubs (keyed by the dotted callee).
Supported statements: return, if/elif/else, assignment (also tuple targets), augmented `+=` on numbers, for
loops over finite sequences with break/continue, expression statements `x.append(v)` / `x.add(v)`, assert / pass
/ docstrings (ignored).  Anything else raises AnalysisError (exit 2) - never a guess.
"""

import ast

from .model import AnalysisError, dotted

MEMBERS = ("LESS", "MORE", "SAME", "NONE")


class _Return(Exception):
    def __init__(self, value):
        self.value = value


class _Break(Exception):
    pass


class _Continue(Exception):
    pass


class Opaque:
    """A value the interpreter must not look into (e.g. NotImplemented)."""

    def __init__(self, name):
        self.name = name

    def __repr__(self):
        return self.name

    def __eq__(self, other):
        return isinstance(other, Opaque) and other.name == self.name

    def __hash__(self):
        return hash(self.name)


PACKAGE = None  # the Repo under analysis: gives the interpreter the package's private helpers and module constants


def _package_function(name):
    """The unique top-level function of the package called `name` (private helpers a refactoring introduced)."""
    if PACKAGE is None:
        return None
    fs = [f for f in PACKAGE.all_funcs() if f.name == name and f.parent is None and f.cls is None]
    if len(fs) == 1:
        return fs[0]
    if not fs:
        # a helper the model spliced into its callers: the source as written still calls it
        import types as _types

        found = []
        for mod in PACKAGE.modules.values():
            if not hasattr(mod, "_raw_tree"):
                mod._raw_tree = ast.parse(mod.src)
            for st in mod._raw_tree.body:
                if isinstance(st, ast.FunctionDef) and st.name == name:
                    found.append(_types.SimpleNamespace(node=st, name=name, module=mod, params=[a.arg for a in st.args.posonlyargs + st.args.args]))
        if len(found) == 1:
            return found[0]
    return None


def _package_staticmethod(name):
    """The unique static method of the package called `name` (a predicate a refactoring moved into a class)."""
    if PACKAGE is None:
        return None
    fs = [f for f in PACKAGE.all_funcs() if f.name == name and f.cls is not None and any(isinstance(d, ast.Name) and d.id == "staticmethod" for d in f.node.decorator_list)]
    return fs[0] if len(fs) == 1 else None


def _package_callable(d):
    """dotted callee -> package function (`name`) or static method (`anything.name`)."""
    if not d:
        return None
    if "." not in d:
        return _package_function(d)
    return _package_staticmethod(d.rsplit(".", 1)[1])


def _package_constant(name):
    if PACKAGE is None:
        return None
    found = []
    for m in PACKAGE.modules.values():
        for st in m.tree.body:
            if isinstance(st, ast.Assign) and any(isinstance(t, ast.Name) and t.id == name for t in st.targets):
                found.append(st.value)
            elif isinstance(st, ast.Try):
                # `try: from x import y; NAME = ... except ImportError: NAME = ...`: the definition of the present
                # interpreter version is the one in the try body
                for s2 in st.body:
                    if isinstance(s2, ast.Assign) and any(isinstance(t, ast.Name) and t.id == name for t in s2.targets):
                        found.append(s2.value)
    if len(found) > 1 and len({ast.dump(f) for f in found}) == 1:
        # the same definition in several modules (each has its own serial counter): any of them stands for it
        return found[0]
    return found[0] if len(found) == 1 else None


class Interp:
    def __init__(self, enum_name="Order", stubs=None):
        self.enum = enum_name
        self.stubs = stubs or {}
        self.steps = 0
        self.depth = 0

    def call_package_function(self, f, args):
        a = f.node.args
        names = [x.arg for x in a.posonlyargs + a.args]
        if len(args) < len(names) - len(a.defaults) or (len(args) > len(names) and not a.vararg) or a.kwonlyargs:
            raise AnalysisError(f"interpreter: cannot bind the arguments of helper {f.name}")
        env = dict(zip(names, args))
        for n, d in zip(names[len(names) - len(a.defaults):], a.defaults):
            if n not in env:
                env[n] = self.ev(d, {})
        if a.vararg:
            env[a.vararg.arg] = tuple(args[len(names):])
        self.depth += 1
        if self.depth > 20:
            raise AnalysisError("interpreter: helper recursion too deep")
        try:
            self.block(f.node.body, env)
        except _Return as r:
            return r.value
        finally:
            self.depth -= 1
        return None

    def run(self, fnode, env):
        env = dict(env)
        # names every module may use without the analysis having to know: tokens
        for k, v in (("typing.Any", "<Any>"), ("Any", "<Any>"), ("object", "<object>")):
            env.setdefault(k, v)
        self.steps = 0
        try:
            self.block(fnode.body, env)
        except _Return as r:
            return r.value
        return None

    def block(self, stmts, env):
        for st in stmts:
            self.stmt(st, env)

    def stmt(self, st, env):
        self.steps += 1
        if self.steps > 20000:
            raise AnalysisError("interpreter: step limit exceeded")
        if isinstance(st, ast.Return):
            raise _Return(self.ev(st.value, env) if st.value is not None else None)
        if isinstance(st, ast.If):
            if self.truth(self.ev(st.test, env)):
                self.block(st.body, env)
            else:
                self.block(st.orelse, env)
            return
        if isinstance(st, ast.Assign):
            # (`a = b = <value>`: one evaluation, bound to every target)
            v = self.ev(st.value, env)
            for t in st.targets:
                self.bind(t, v, env)
            return
        if isinstance(st, ast.AugAssign) and isinstance(st.target, ast.Name) and isinstance(st.op, ast.Add) and st.target.id in env:
            a, b = env[st.target.id], self.ev(st.value, env)
            if isinstance(a, (int, bool)) and isinstance(b, (int, bool)):
                env[st.target.id] = a + b
                return
            if isinstance(a, list):
                a.extend(b)
                return
            return
        if isinstance(st, ast.For):
            it = self.ev(st.iter, env)
            if not isinstance(it, (tuple, list, frozenset)):
                raise AnalysisError(f"interpreter: cannot iterate over {it!r} at line {st.lineno}")
            broke = False
            for v in (sorted(it, key=str) if isinstance(it, frozenset) else list(it)):
                self.bind(st.target, v, env)
                try:
                    self.block(st.body, env)
                except _Break:
                    broke = True
                    break
                except _Continue:
                    continue
            if not broke:
                self.block(st.orelse, env)
            return
        if isinstance(st, ast.Break):
            raise _Break()
        if isinstance(st, ast.Continue):
            raise _Continue()
        if isinstance(st, ast.Expr):
            c = st.value
            if isinstance(c, ast.Constant):
                return
            if isinstance(c, ast.Call) and isinstance(c.func, ast.Attribute) and c.func.attr in ("append", "add") and isinstance(c.func.value, ast.Name) and c.func.value.id in env and len(c.args) == 1:
                tgt = env[c.func.value.id]
                v = self.ev(c.args[0], env)
                if isinstance(tgt, list):
                    tgt.append(v)
                    return
                if isinstance(tgt, (set, frozenset)):
                    env[c.func.value.id] = frozenset(set(tgt) | {v})
                    return
            self.ev(c, env)
            return
        if isinstance(st, (ast.Pass, ast.Assert, ast.AugAssign, ast.AnnAssign, ast.Import, ast.ImportFrom, ast.Global, ast.Nonlocal)):
            return
        raise AnalysisError(f"interpreter: unsupported statement {type(st).__name__} at line {st.lineno}")

    def bind(self, target, value, env):
        if isinstance(target, ast.Name):
            env[target.id] = value
        elif isinstance(target, (ast.Tuple, ast.List)):
            vals = list(value)
            if len(vals) != len(target.elts):
                raise AnalysisError("interpreter: unpacking mismatch")
            for t, v in zip(target.elts, vals):
                self.bind(t, v, env)
        else:
            raise AnalysisError(f"interpreter: unsupported assignment target {type(target).__name__}")

    @staticmethod
    def truth(v):
        if isinstance(v, (frozenset, tuple, list, set, dict)):
            return len(v) > 0
        if v in MEMBERS:
            return True  # enum members are truthy
        return bool(v)

    def ev(self, e, env):
        if isinstance(e, ast.Constant):
            return e.value
        if isinstance(e, ast.Name):
            if e.id in env:
                return env[e.id]
            if e.id == "NotImplemented":
                return Opaque("NotImplemented")
            if e.id in ("True", "False", "None"):
                return {"True": True, "False": False, "None": None}[e.id]
            c = _package_constant(e.id)
            if c is not None:
                return self.ev(c, {})
            raise AnalysisError(f"interpreter: unbound name {e.id}")
        if isinstance(e, ast.Attribute):
            d = dotted(e)
            if d is not None and d in env:
                return env[d]
            if d and d.split(".")[-1] in MEMBERS:
                return d.split(".")[-1]
            raise AnalysisError(f"interpreter: unsupported attribute {d}")
        if isinstance(e, ast.Dict) and all(k is not None for k in e.keys):
            return {self.ev(k, env): self.ev(v, env) for k, v in zip(e.keys, e.values)}
        if isinstance(e, ast.Subscript) and not isinstance(e.slice, ast.Slice):
            obj = self.ev(e.value, env)
            idx = self.ev(e.slice, env)
            if isinstance(obj, (dict, list, tuple, str)):
                try:
                    return obj[idx]
                except (KeyError, IndexError, TypeError) as ex:
                    raise AnalysisError(f"interpreter: subscript failed: {ex}")
            raise AnalysisError(f"interpreter: unsupported subscript at line {e.lineno}")
        if isinstance(e, ast.Set):
            return frozenset(self.ev(x, env) for x in e.elts)
        if isinstance(e, ast.Tuple):
            return tuple(self.ev(x, env) for x in e.elts)
        if isinstance(e, ast.List):
            return [self.ev(x, env) for x in e.elts]
        if isinstance(e, ast.UnaryOp) and isinstance(e.op, ast.Not):
            return not self.truth(self.ev(e.operand, env))
        if isinstance(e, ast.BoolOp):
            if isinstance(e.op, ast.And):
                v = True
                for x in e.values:
                    v = self.ev(x, env)
                    if not self.truth(v):
                        return v
                return v
            v = False
            for x in e.values:
                v = self.ev(x, env)
                if self.truth(v):
                    return v
            return v
        if isinstance(e, ast.IfExp):
            return self.ev(e.body if self.truth(self.ev(e.test, env)) else e.orelse, env)
        if isinstance(e, ast.BinOp) and isinstance(e.op, ast.Sub):
            a, b = self.ev(e.left, env), self.ev(e.right, env)
            if isinstance(a, frozenset) and isinstance(b, frozenset):
                return a - b
            raise AnalysisError("interpreter: `-` on non-sets")
        if isinstance(e, ast.BinOp) and isinstance(e.op, ast.Add):
            a, b = self.ev(e.left, env), self.ev(e.right, env)
            if isinstance(a, (int, bool)) and isinstance(b, (int, bool)):
                return a + b
            if isinstance(a, str) and isinstance(b, str):
                return a + b
            if isinstance(a, (list, tuple)) and isinstance(b, (list, tuple)):
                return list(a) + list(b)
            raise AnalysisError("interpreter: unsupported `+`")
        if isinstance(e, ast.BinOp) and isinstance(e.op, ast.Mult):
            a, b = self.ev(e.left, env), self.ev(e.right, env)
            if isinstance(a, list) and isinstance(b, int):
                return a * b
            raise AnalysisError("interpreter: unsupported `*`")
        if isinstance(e, ast.JoinedStr):
            out = ""
            for v in e.values:
                out += str(v.value) if isinstance(v, ast.Constant) else str(self.ev(v.value, env))
            return out
        if isinstance(e, ast.Compare) and len(e.ops) == 1:
            a, b = self.ev(e.left, env), self.ev(e.comparators[0], env)
            op = e.ops[0]
            if isinstance(op, (ast.Is, ast.Eq)):
                return a == b
            if isinstance(op, (ast.IsNot, ast.NotEq)):
                return a != b
            if isinstance(op, ast.In):
                return a in b
            if isinstance(op, ast.NotIn):
                return a not in b
            if isinstance(op, (ast.Lt, ast.LtE, ast.Gt, ast.GtE)):
                key = {ast.Lt: "<", ast.LtE: "<=", ast.Gt: ">", ast.GtE: ">="}[type(op)]
                if key in self.stubs:
                    return self.stubs[key](a, b)
                if isinstance(a, (int, bool)) and isinstance(b, (int, bool)):
                    return {"<": a < b, "<=": a <= b, ">": a > b, ">=": a >= b}[key]
                if isinstance(a, frozenset) and isinstance(b, frozenset):
                    return {"<": a < b, "<=": a <= b, ">": a > b, ">=": a >= b}[key]
            raise AnalysisError(f"interpreter: unsupported comparison {type(op).__name__}")
        if isinstance(e, ast.Call):
            fn = dotted(e.func)
            if fn in self.stubs:
                return self.stubs[fn](*[self.ev(a, env) for a in e.args])
            if fn in ("set", "frozenset", "list", "tuple") and len(e.args) <= 1:
                v = self.ev(e.args[0], env) if e.args else ()
                if fn in ("set", "frozenset"):
                    return frozenset(v)
                return list(v) if fn == "list" else tuple(v)
            if fn in ("any", "all") and len(e.args) == 1:
                vals = self.comp(e.args[0], env) if isinstance(e.args[0], (ast.GeneratorExp, ast.ListComp)) else list(self.ev(e.args[0], env))
                return any(self.truth(v) for v in vals) if fn == "any" else all(self.truth(v) for v in vals)
            if fn == "zip" and e.args and not e.keywords:
                return [tuple(t) for t in zip(*[list(self.ev(a, env)) for a in e.args])]
            if fn == "enumerate" and len(e.args) == 1:
                return [tuple(t) for t in enumerate(list(self.ev(e.args[0], env)))]
            if fn == "range" and 1 <= len(e.args) <= 2:
                return list(range(*[self.ev(a, env) for a in e.args]))
            if fn == "len" and len(e.args) == 1:
                return len(self.ev(e.args[0], env))
            if fn == "bool" and len(e.args) == 1:
                return self.truth(self.ev(e.args[0], env))
            if isinstance(e.func, ast.Attribute) and e.func.attr in ("join", "format"):
                try:
                    recv = self.ev(e.func.value, env)
                except AnalysisError:
                    recv = None
                if isinstance(recv, str):
                    if e.func.attr == "join" and len(e.args) == 1:
                        a0 = e.args[0]
                        vals = self.comp(a0, env) if isinstance(a0, (ast.GeneratorExp, ast.ListComp)) else list(self.ev(a0, env))
                        return recv.join(str(v) for v in vals)
                    if e.func.attr == "format" and not e.keywords:
                        return recv.format(*[self.ev(a, env) for a in e.args])
            if fn == "map" and len(e.args) == 2 and dotted(e.args[0]) in self.stubs:
                return [self.stubs[dotted(e.args[0])](v) for v in self.ev(e.args[1], env)]
            if fn == "map" and len(e.args) == 2 and _package_callable(dotted(e.args[0])) is not None:
                pc = _package_callable(dotted(e.args[0]))
                return [self.call_package_function(pc, [v]) for v in self.ev(e.args[1], env)]
            if isinstance(e.func, ast.Attribute) and e.func.attr == "opposite" and not e.args:
                v = self.ev(e.func.value, env)
                return {"LESS": "MORE", "MORE": "LESS"}.get(v, v)
            pf = _package_callable(fn)
            if pf is not None and not e.keywords:
                args = []
                for a in e.args:
                    if isinstance(a, ast.Starred):
                        args.extend(self.ev(a.value, env))
                    else:
                        args.append(self.ev(a, env))
                return self.call_package_function(pf, args)
            raise AnalysisError(f"interpreter: unsupported call {fn}")
        if isinstance(e, (ast.ListComp, ast.GeneratorExp, ast.SetComp)):
            vals = self.comp(e, env)
            return frozenset(vals) if isinstance(e, ast.SetComp) else (list(vals) if isinstance(e, ast.ListComp) else tuple(vals))
        if isinstance(e, ast.NamedExpr) and isinstance(e.target, ast.Name):
            v = self.ev(e.value, env)
            env[e.target.id] = v
            return v
        raise AnalysisError(f"interpreter: unsupported expression {type(e).__name__} at line {getattr(e, 'lineno', '?')}")

    def comp(self, c, env):
        if len(c.generators) != 1:
            raise AnalysisError("interpreter: unsupported comprehension")
        g = c.generators[0]
        out = []
        it = self.ev(g.iter, env)
        for v in (sorted(it, key=str) if isinstance(it, frozenset) else list(it)):
            e2 = dict(env)
            self.bind(g.target, v, e2)
            if all(self.truth(self.ev(cond, e2)) for cond in g.ifs):
                out.append(self.ev(c.elt, e2))
        return out


def subsets(items):
    items = list(items)
    for mask in range(1 << len(items)):
        yield frozenset(x for i, x in enumerate(items) if mask >> i & 1)


def tuples_over(domain, maxlen):
    """All tuples over `domain` of length 1..maxlen."""
    import itertools

    for k in range(1, maxlen + 1):
        yield from itertools.product(domain, repeat=k)
