"""Finite-domain interpreter for code over the four-valued Order enum.

Evaluates a function body (an ast) under an environment; the value domain is
  'LESS' 'MORE' 'SAME' 'NONE'  (enum members),  frozensets / tuples of them,  booleans,  None.
Only the idioms the Order-valued functions of the package use are supported; anything else raises
AnalysisError (exit 2), never a guess.
"""

import ast

from .model import AnalysisError, dotted

MEMBERS = ("LESS", "MORE", "SAME", "NONE")


class _Return(Exception):
    def __init__(self, value):
        self.value = value


class Interp:
    def __init__(self, enum_name="Order", stubs=None):
        self.enum = enum_name
        self.stubs = stubs or {}

    def run(self, fnode, env):
        env = dict(env)
        try:
            self.block(fnode.body, env)
        except _Return as r:
            return r.value
        return None

    def block(self, stmts, env):
        for st in stmts:
            self.stmt(st, env)

    def stmt(self, st, env):
        if isinstance(st, ast.Return):
            raise _Return(self.ev(st.value, env) if st.value is not None else None)
        if isinstance(st, ast.If):
            if self.truth(self.ev(st.test, env)):
                self.block(st.body, env)
            else:
                self.block(st.orelse, env)
            return
        if isinstance(st, ast.Assign) and len(st.targets) == 1 and isinstance(st.targets[0], ast.Name):
            env[st.targets[0].id] = self.ev(st.value, env)
            return
        if isinstance(st, ast.Expr) and isinstance(st.value, ast.Constant):
            return
        if isinstance(st, ast.Pass):
            return
        raise AnalysisError(f"Order interpreter: unsupported statement {type(st).__name__} at line {st.lineno}")

    @staticmethod
    def truth(v):
        if isinstance(v, (frozenset, tuple, list)):
            return len(v) > 0
        if v in MEMBERS:
            return True  # enum members are truthy
        return bool(v)

    def ev(self, e, env):
        if isinstance(e, ast.Constant):
            return e.value
        if isinstance(e, ast.Name):
            if e.id in env:
                return env[e.id]
            raise AnalysisError(f"Order interpreter: unbound name {e.id}")
        if isinstance(e, ast.Attribute):
            d = dotted(e)
            if d and d.split(".")[-1] in MEMBERS:
                base = e.value
                # Order.X, or <order value>.X (the package writes `order.SAME` on an instance)
                return d.split(".")[-1]
            raise AnalysisError(f"Order interpreter: unsupported attribute {d}")
        if isinstance(e, ast.Set):
            return frozenset(self.ev(x, env) for x in e.elts)
        if isinstance(e, (ast.Tuple, ast.List)):
            return tuple(self.ev(x, env) for x in e.elts)
        if isinstance(e, ast.UnaryOp) and isinstance(e.op, ast.Not):
            return not self.truth(self.ev(e.operand, env))
        if isinstance(e, ast.BoolOp):
            if isinstance(e.op, ast.And):
                v = True
                for x in e.values:
                    v = self.ev(x, env)
                    if not self.truth(v):
                        return v
                return v
            v = False
            for x in e.values:
                v = self.ev(x, env)
                if self.truth(v):
                    return v
            return v
        if isinstance(e, ast.IfExp):
            return self.ev(e.body if self.truth(self.ev(e.test, env)) else e.orelse, env)
        if isinstance(e, ast.BinOp) and isinstance(e.op, ast.Sub):
            a, b = self.ev(e.left, env), self.ev(e.right, env)
            if isinstance(a, frozenset) and isinstance(b, frozenset):
                return a - b
            raise AnalysisError("Order interpreter: `-` on non-sets")
        if isinstance(e, ast.Compare) and len(e.ops) == 1:
            a, b = self.ev(e.left, env), self.ev(e.comparators[0], env)
            op = e.ops[0]
            if isinstance(op, (ast.Is, ast.Eq)):
                return a == b
            if isinstance(op, (ast.IsNot, ast.NotEq)):
                return a != b
            if isinstance(op, ast.In):
                return a in b
            if isinstance(op, ast.NotIn):
                return a not in b
            raise AnalysisError(f"Order interpreter: unsupported comparison {type(op).__name__}")
        if isinstance(e, ast.Call):
            fn = dotted(e.func)
            if fn in ("set", "frozenset", "list", "tuple") and len(e.args) == 1:
                v = self.ev(e.args[0], env)
                return frozenset(v) if fn in ("set", "frozenset") else tuple(v)
            if fn in ("any", "all") and len(e.args) == 1 and isinstance(e.args[0], (ast.GeneratorExp, ast.ListComp)):
                vals = self.comp(e.args[0], env)
                return any(self.truth(v) for v in vals) if fn == "any" else all(self.truth(v) for v in vals)
            if fn in self.stubs:
                return self.stubs[fn](*[self.ev(a, env) for a in e.args])
            raise AnalysisError(f"Order interpreter: unsupported call {fn}")
        if isinstance(e, (ast.ListComp, ast.GeneratorExp, ast.SetComp)):
            vals = self.comp(e, env)
            return frozenset(vals) if isinstance(e, ast.SetComp) else tuple(vals)
        if isinstance(e, ast.NamedExpr) and isinstance(e.target, ast.Name):
            v = self.ev(e.value, env)
            env[e.target.id] = v
            return v
        raise AnalysisError(f"Order interpreter: unsupported expression {type(e).__name__} at line {getattr(e, 'lineno', '?')}")

    def comp(self, c, env):
        if len(c.generators) != 1 or not isinstance(c.generators[0].target, ast.Name):
            raise AnalysisError("Order interpreter: unsupported comprehension")
        g = c.generators[0]
        out = []
        for v in sorted(self.ev(g.iter, env), key=str):
            e2 = dict(env)
            e2[g.target.id] = v
            if all(self.truth(self.ev(cond, e2)) for cond in g.ifs):
                out.append(self.ev(c.elt, e2))
        return out


def subsets(items):
    items = list(items)
    for mask in range(1 << len(items)):
        yield frozenset(x for i, x in enumerate(items) if mask >> i & 1)
