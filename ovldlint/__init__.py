"""ovldlint: repository-specific static checker deciding structural clauses of the ovld properties."""
