"""Resolved call graph over the package, and the 'fallible' closure used by the crash-point rules."""

import ast

from .model import call_name, dotted, func_body_nodes, is_self_attr

FALLIBLE_BUILTINS = {
    "compile", "exec", "eval", "inspect.getsource",
    "ast.parse", "__import__",
}


def _attr_kinds(repo):
    """attribute name -> class, from `self.A = C(...)` / `self.A = x or C()` anywhere in the package."""
    kinds = {}
    for f in repo.all_funcs():
        for n in ast.walk(f.node):
            if isinstance(n, ast.Assign) and isinstance(n.value, (ast.Call, ast.BoolOp)):
                cands = [n.value] if isinstance(n.value, ast.Call) else [v for v in n.value.values if isinstance(v, ast.Call)]
                for c in cands:
                    cn = call_name(c)
                    if not cn or "." in cn:
                        continue
                    r = repo.resolve_name(f.module, cn)
                    if r and r[0] == "class":
                        for t in n.targets:
                            if isinstance(t, ast.Attribute):
                                kinds.setdefault(t.attr, r[1])
                            elif isinstance(t, ast.Subscript) and isinstance(t.value, ast.Attribute):
                                kinds.setdefault(t.value.attr + "[]", r[1])
    return kinds


class CallGraph:
    def __init__(self, repo):
        self.repo = repo
        self.kinds = _attr_kinds(repo)
        self.by_method_name = {}
        for f in repo.all_funcs():
            if f.cls is not None:
                self.by_method_name.setdefault(f.name, []).append(f)
        self._callees = {}
        self.unresolved = {}

    def resolve_call(self, fi, call):
        """-> list of FuncInfo the call may reach (empty if external/unknown)."""
        repo = self.repo
        f = call.func
        if isinstance(f, ast.Name):
            # nested function of the enclosing function chain?
            p = fi
            while p is not None:
                if f.id in p.children:
                    return [p.children[f.id]]
                p = p.parent
            r = repo.resolve_name(fi.module, f.id)
            if r is None:
                return []
            if r[0] == "func":
                return [r[1]]
            out = []
            for mname in ("__init__", "__post_init__", "__new__"):
                m = repo.find_method(r[1], mname)
                if m is not None:
                    out.append(m)
            return out
        if isinstance(f, ast.Attribute):
            cls = fi.cls
            p = fi
            while cls is None and p is not None:
                cls = p.cls
                p = p.parent
            rv = None
            top = fi
            while top.parent is not None and top.cls is None:
                top = top.parent
            a = top.node.args
            allp = a.posonlyargs + a.args
            if top.cls is not None and allp:
                rv = allp[0].arg
            if rv and isinstance(f.value, ast.Name) and f.value.id == rv and cls is not None:
                m = repo.find_method(cls, f.attr)
                if m is not None:
                    return [m]
                # could be defined in a subclass (template method)
                subs = [repo.find_method(s, f.attr) for s in repo.subclasses_of(cls)]
                return [s for s in subs if s is not None]
            # self.attr.m(...) through attribute kinds
            if isinstance(f.value, ast.Attribute) and f.value.attr in self.kinds:
                m = repo.find_method(self.kinds[f.value.attr], f.attr)
                if m is not None:
                    return [m]
            if isinstance(f.value, ast.Subscript) and isinstance(f.value.value, ast.Attribute) and f.value.value.attr + "[]" in self.kinds:
                m = repo.find_method(self.kinds[f.value.value.attr + "[]"], f.attr)
                if m is not None:
                    return [m]
            # self.helper(...).m(...): the helper's return expressions say what the receiver is
            if isinstance(f.value, ast.Call) and rv and is_self_attr(f.value.func, selfname=rv) and cls is not None:
                h = repo.find_method(cls, f.value.func.attr)
                if h is not None:
                    out = []
                    for r in ast.walk(h.node):
                        if isinstance(r, ast.Return) and r.value is not None:
                            v = r.value
                            k = None
                            if isinstance(v, ast.Attribute) and v.attr in self.kinds:
                                k = self.kinds[v.attr]
                            elif isinstance(v, ast.Subscript) and isinstance(v.value, ast.Attribute) and v.value.attr + "[]" in self.kinds:
                                k = self.kinds[v.value.attr + "[]"]
                            elif isinstance(v, ast.Call) and call_name(v) and "." not in call_name(v):
                                rr = repo.resolve_name(h.module, call_name(v))
                                if rr and rr[0] == "class":
                                    k = rr[1]
                            if k is not None:
                                m = repo.find_method(k, f.attr)
                                if m is not None and m not in out:
                                    out.append(m)
                    if out:
                        return out
            # Class.method(...) / module function through import alias
            d = dotted(f.value)
            if d and "." not in d:
                r = repo.resolve_name(fi.module, d)
                if r and r[0] == "class":
                    m = repo.find_method(r[1], f.attr)
                    if m is not None:
                        return [m]
            # x.m(...) on an unknown receiver: unique non-dunder method name in the package
            if not (f.attr.startswith("__") and f.attr.endswith("__")):
                cands = self.by_method_name.get(f.attr, [])
                if len(cands) == 1:
                    return cands
                if len(cands) > 1:
                    return list(cands)
        return []

    def callees(self, fi):
        if fi.key not in self._callees:
            out = []
            for n in func_body_nodes(fi.node):
                if isinstance(n, ast.Call):
                    for t in self.resolve_call(fi, n):
                        if t not in out:
                            out.append(t)
            self._callees[fi.key] = out
        return self._callees[fi.key]

    def closure(self, fis):
        seen = []
        todo = list(fis)
        while todo:
            f = todo.pop()
            if f in seen:
                continue
            seen.append(f)
            todo.extend(self.callees(f))
        return seen

    def fallible_reasons(self, call, fi):
        """Why a call expression may raise for reasons other than a checker bug: in-package callee closure with a
        raise / assert / source compilation, or a fallible builtin."""
        reasons = []
        cn = call_name(call)
        if cn in FALLIBLE_BUILTINS:
            reasons.append(cn)
        for t in self.closure(self.resolve_call(fi, call)):
            for n in func_body_nodes(t.node):
                if isinstance(n, (ast.Raise, ast.Assert)):
                    reasons.append(f"{t.key} raises")
                    break
                if isinstance(n, ast.Call) and call_name(n) in FALLIBLE_BUILTINS:
                    reasons.append(f"{t.key} calls {call_name(n)}")
                    break
        return reasons


def get_callgraph(ctx):
    if "callgraph" not in ctx.cache:
        ctx.cache["callgraph"] = CallGraph(ctx.repo)
    return ctx.cache["callgraph"]
