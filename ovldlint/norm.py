"""Normalisation of boolean conditions into conjunctions of canonical atoms.

An ordering atom is (L, R, k) meaning  L <= R + k  over integers, so that
  a < b + 1,  not a > b,  b >= a,  a <= b      all become (a, b, 0)
Other atoms are ('truthy'|'falsy', expr) or ('other', expr).
"""

import ast

from .model import src

NEG = {ast.Lt: ast.GtE, ast.LtE: ast.Gt, ast.Gt: ast.LtE, ast.GtE: ast.Lt, ast.Eq: ast.NotEq, ast.NotEq: ast.Eq,
       ast.Is: ast.IsNot, ast.IsNot: ast.Is, ast.In: ast.NotIn, ast.NotIn: ast.In}


def _split_offset(e):
    """expr -> (base expr, int offset)"""
    if isinstance(e, ast.BinOp) and isinstance(e.op, (ast.Add, ast.Sub)):
        if isinstance(e.right, ast.Constant) and isinstance(e.right.value, int) and not isinstance(e.right.value, bool):
            b, k = _split_offset(e.left)
            return b, k + (e.right.value if isinstance(e.op, ast.Add) else -e.right.value)
        if isinstance(e.op, ast.Add) and isinstance(e.left, ast.Constant) and isinstance(e.left.value, int) and not isinstance(e.left.value, bool):
            b, k = _split_offset(e.right)
            return b, k + e.left.value
    return e, 0


def _order_atom(left, op, right):
    lb, lk = _split_offset(left)
    rb, rk = _split_offset(right)
    # left + lk OP right + rk
    if isinstance(op, ast.LtE):
        return ("le", lb, rb, rk - lk)
    if isinstance(op, ast.Lt):
        return ("le", lb, rb, rk - lk - 1)
    if isinstance(op, ast.GtE):
        return ("le", rb, lb, lk - rk)
    if isinstance(op, ast.Gt):
        return ("le", rb, lb, lk - rk - 1)
    return None


def atoms(expr, negate=False):
    """Conjunctive atoms of expr; a disjunction (or a negated conjunction) is a single 'other' atom."""
    if isinstance(expr, ast.BoolOp):
        if isinstance(expr.op, ast.And) and not negate:
            out = []
            for v in expr.values:
                out += atoms(v)
            return out
        if isinstance(expr.op, ast.Or) and negate:
            out = []
            for v in expr.values:
                out += atoms(v, True)
            return out
        return [("other", expr, negate)]
    if isinstance(expr, ast.UnaryOp) and isinstance(expr.op, ast.Not):
        return atoms(expr.operand, not negate)
    if isinstance(expr, ast.Compare):
        parts = []
        left = expr.left
        for op, right in zip(expr.ops, expr.comparators):
            parts.append((left, op, right))
            left = right
        if negate and len(parts) > 1:
            return [("other", expr, True)]
        out = []
        for l, op, r in parts:
            if negate:
                op = NEG[type(op)]()
            oa = _order_atom(l, op, r)
            if oa:
                out.append(oa)
            else:
                out.append(("cmp", type(op).__name__, l, r))
        return out
    return [("falsy" if negate else "truthy", expr)]


def atom_str(a):
    if a[0] == "le":
        k = a[3]
        return f"{src(a[1])} <= {src(a[2])}" + (f" + {k}" if k > 0 else f" - {-k}" if k < 0 else "")
    if a[0] == "cmp":
        return f"{src(a[2])} {a[1]} {src(a[3])}"
    if a[0] == "other":
        return ("not " if a[2] else "") + src(a[1])
    return f"{a[0]}({src(a[1])})"
