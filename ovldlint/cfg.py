"""Statement-level control-flow graph for one function, with reachability queries.

Nodes are statements (simple statements, and the header of compound ones).  Normal exit and
exceptional exit are distinct.  `avoiding` queries give dominance / post-dominance:
  * X dominates n        <=>  n is not reachable from entry once X is removed
  * X post-dominates n   <=>  the normal exit is not reachable from n once X is removed
"""

import ast

from .model import AnalysisError

SIMPLE = (
    ast.Assign,
    ast.AugAssign,
    ast.AnnAssign,
    ast.Expr,
    ast.Pass,
    ast.Assert,
    ast.Delete,
    ast.Import,
    ast.ImportFrom,
    ast.Global,
    ast.Nonlocal,
    ast.FunctionDef,
    ast.AsyncFunctionDef,
    ast.ClassDef,
)


class Node:
    __slots__ = ("id", "stmt", "kind")

    def __init__(self, id, stmt, kind):
        self.id = id
        self.stmt = stmt
        self.kind = kind

    def __repr__(self):
        return f"<N{self.id} {self.kind} L{getattr(self.stmt, 'lineno', '-')}>"


class CFG:
    def __init__(self, fnode):
        self.fnode = fnode
        self.nodes = []
        self.succ = {}
        self.pred = {}
        self.by_stmt = {}
        self.entry = self._new(None, "entry")
        self.exit = self._new(None, "exit")
        self.exc_exit = self._new(None, "exc_exit")
        self._loops = []
        self._handlers = []  # stack of lists of handler-entry ids
        ends = self._block(fnode.body, [self.entry])
        for e in ends:
            self._edge(e, self.exit)

    # ------------------------------------------------------------ construction
    def _new(self, stmt, kind):
        n = Node(len(self.nodes), stmt, kind)
        self.nodes.append(n)
        self.succ[n.id] = set()
        self.pred[n.id] = set()
        if stmt is not None and stmt not in self.by_stmt:
            self.by_stmt[stmt] = n.id
        return n.id

    def _edge(self, a, b):
        self.succ[a].add(b)
        self.pred[b].add(a)

    def _raise_targets(self):
        if self._handlers:
            return self._handlers[-1]
        return [self.exc_exit]

    def _block(self, stmts, preds):
        cur = list(preds)
        for st in stmts:
            cur = self._stmt(st, cur)
        return cur

    def _stmt(self, st, preds):
        if isinstance(st, SIMPLE):
            n = self._new(st, "stmt")
            for p in preds:
                self._edge(p, n)
            # a statement that may raise inside a try body can reach the handlers
            if self._handlers and _may_raise(st):
                for h in self._handlers[-1]:
                    self._edge(n, h)
            return [n]
        if isinstance(st, ast.Return):
            n = self._new(st, "return")
            for p in preds:
                self._edge(p, n)
            self._edge(n, self.exit)
            if self._handlers and st.value is not None and _may_raise(st):
                for h in self._handlers[-1]:
                    self._edge(n, h)
            return []
        if isinstance(st, ast.Raise):
            n = self._new(st, "raise")
            for p in preds:
                self._edge(p, n)
            for t in self._raise_targets():
                self._edge(n, t)
            if self._handlers:
                # the handler might not match: the exception may also escape
                self._edge(n, self.exc_exit)
            return []
        if isinstance(st, ast.If):
            n = self._new(st, "test")
            for p in preds:
                self._edge(p, n)
            if self._handlers and _may_raise(st.test):
                for h in self._handlers[-1]:
                    self._edge(n, h)
            a = self._block(st.body, [n])
            b = self._block(st.orelse, [n]) if st.orelse else [n]
            return a + b
        if isinstance(st, (ast.For, ast.AsyncFor, ast.While)):
            n = self._new(st, "loop")
            for p in preds:
                self._edge(p, n)
            if self._handlers:
                for h in self._handlers[-1]:
                    self._edge(n, h)
            self._loops.append({"head": n, "breaks": []})
            ends = self._block(st.body, [n])
            for e in ends:
                self._edge(e, n)
            info = self._loops.pop()
            infinite = isinstance(st, ast.While) and isinstance(st.test, ast.Constant) and st.test.value
            out = [] if infinite else [n]
            if st.orelse:
                out = self._block(st.orelse, out)
            return out + info["breaks"]
        if isinstance(st, ast.Break):
            n = self._new(st, "break")
            for p in preds:
                self._edge(p, n)
            if not self._loops:
                raise AnalysisError("break outside loop")
            self._loops[-1]["breaks"].append(n)
            return []
        if isinstance(st, ast.Continue):
            n = self._new(st, "continue")
            for p in preds:
                self._edge(p, n)
            if not self._loops:
                raise AnalysisError("continue outside loop")
            self._edge(n, self._loops[-1]["head"])
            return []
        if isinstance(st, (ast.With, ast.AsyncWith)):
            n = self._new(st, "with")
            for p in preds:
                self._edge(p, n)
            return self._block(st.body, [n])
        if isinstance(st, ast.Try):
            n = self._new(st, "try")
            for p in preds:
                self._edge(p, n)
            hentries = []
            for h in st.handlers:
                hn = self._new(h, "except")
                hentries.append(hn)
            self._handlers.append(hentries if hentries else self._raise_targets())
            body_ends = self._block(st.body, [n])
            self._handlers.pop()
            else_ends = self._block(st.orelse, body_ends) if st.orelse else body_ends
            hends = []
            for h, hn in zip(st.handlers, hentries):
                hends += self._block(h.body, [hn])
            ends = else_ends + hends
            if st.finalbody:
                ends = self._block(st.finalbody, ends)
            return ends
        raise AnalysisError(
            f"statement kind {type(st).__name__} at line {st.lineno} is outside the CFG builder"
        )

    # ------------------------------------------------------------ queries
    def node_of(self, stmt):
        """CFG node of the statement that contains `stmt` (an ast node in this function)."""
        if stmt in self.by_stmt:
            return self.by_stmt[stmt]
        return None

    def stmt_nodes(self):
        return [n for n in self.nodes if n.stmt is not None]

    def reachable(self, start, avoiding=(), strict=True):
        """Nodes reachable from `start` along edges, never entering a node in `avoiding`."""
        avoiding = set(avoiding)
        seen = set()
        stack = list(self.succ[start]) if strict else [start]
        while stack:
            x = stack.pop()
            if x in seen or x in avoiding:
                continue
            seen.add(x)
            stack.extend(self.succ[x])
        return seen

    def dominated_by(self, n, guards):
        """True iff every path entry -> n passes through a node of `guards`."""
        guards = set(guards)
        if n in guards:
            return True
        return n not in self.reachable(self.entry, avoiding=guards)

    def must_reach(self, n, targets, exit=None):
        """True iff every path n -> normal exit passes through a node of `targets`."""
        targets = set(targets)
        exit = self.exit if exit is None else exit
        if n in targets:
            return True
        return exit not in self.reachable(n, avoiding=targets)

    def reaches_exit(self, n):
        return self.exit in self.reachable(n)


def _may_raise(node):
    for n in ast.walk(node):
        if isinstance(n, (ast.Call, ast.Subscript, ast.Attribute, ast.BinOp, ast.Compare, ast.Await)):
            return True
    return False


def header_exprs(stmt):
    """The expressions evaluated *at* the CFG node of `stmt` (not in nested blocks)."""
    if isinstance(stmt, ast.If) or isinstance(stmt, ast.While):
        return [stmt.test]
    if isinstance(stmt, (ast.For, ast.AsyncFor)):
        return [stmt.target, stmt.iter]
    if isinstance(stmt, (ast.With, ast.AsyncWith)):
        return [i.context_expr for i in stmt.items]
    if isinstance(stmt, ast.Try):
        return []
    if isinstance(stmt, ast.ExceptHandler):
        return [stmt.type] if stmt.type else []
    if isinstance(stmt, (ast.FunctionDef, ast.AsyncFunctionDef)):
        return list(stmt.decorator_list) + [d for d in stmt.args.defaults] + [
            d for d in stmt.args.kw_defaults if d is not None
        ]
    if isinstance(stmt, ast.ClassDef):
        return list(stmt.decorator_list) + list(stmt.bases)
    return [stmt]


def node_exprs(cfg, nid):
    st = cfg.nodes[nid].stmt
    if st is None:
        return []
    return header_exprs(st)


def all_stmts(fnode):
    """Every statement of the function's own body, in source order (not nested defs' bodies)."""
    out = []

    def rec(stmts):
        for st in stmts:
            out.append(st)
            for fld in ("body", "orelse", "finalbody"):
                if isinstance(st, (ast.FunctionDef, ast.AsyncFunctionDef, ast.ClassDef)):
                    continue
                sub = getattr(st, fld, None)
                if sub:
                    rec(sub)
            for h in getattr(st, "handlers", []) or []:
                out.append(h)
                rec(h.body)

    rec(fnode.body)
    return out
