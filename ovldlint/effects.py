"""Per-function effects on access paths rooted at a receiver name (usually `self`)."""

import ast

from .cfg import all_stmts, header_exprs
from .model import call_name, dotted, is_self_attr

MUTATORS = {
    "add", "append", "update", "clear", "pop", "setdefault", "extend", "remove",
    "discard", "sort", "insert", "popitem", "reverse", "__setitem__", "__delitem__",
    "intersection_update", "difference_update", "symmetric_difference_update",
}

DICT = "<dict>"


class Write:
    __slots__ = ("attr", "kind", "stmt", "node", "method")

    def __init__(self, attr, kind, stmt, node, method=None):
        self.attr = attr      # attribute name, or DICT for the receiver itself
        self.kind = kind      # 'rebind' | 'elem' | 'del' | 'call'
        self.stmt = stmt
        self.node = node
        self.method = method  # mutator name for kind == 'call'

    def __repr__(self):
        return f"<Write {self.attr} {self.kind}{':' + self.method if self.method else ''} L{self.stmt.lineno}>"


def _root_attr(node, recv):
    """If node is recv.X, recv.X[...], recv.X[...][...] return ('X', depth); recv[...] -> (DICT, depth)."""
    depth = 0
    while isinstance(node, ast.Subscript):
        node = node.value
        depth += 1
    if is_self_attr(node, selfname=recv):
        return node.attr, depth
    if isinstance(node, ast.Name) and node.id == recv and depth > 0:
        return DICT, depth
    return None, 0


def stmt_writes(stmt, recv="self"):
    """Writes performed by the expressions evaluated at this statement's CFG node."""
    out = []
    tops = header_exprs(stmt)
    for top in tops:
        for n in ast.walk(top) if not isinstance(top, ast.stmt) else _walk_stmt(top):
            if isinstance(n, (ast.Assign, ast.AnnAssign, ast.AugAssign)):
                tgts = n.targets if isinstance(n, ast.Assign) else [n.target]
                for t in tgts:
                    for tt in _targets(t):
                        a, d = _root_attr(tt, recv)
                        if a is None:
                            continue
                        if d == 0:
                            out.append(Write(a, "rebind", stmt, n))
                        else:
                            out.append(Write(a, "elem", stmt, n))
            elif isinstance(n, ast.Delete):
                for t in n.targets:
                    a, d = _root_attr(t, recv)
                    if a is not None:
                        out.append(Write(a, "del", stmt, n))
            elif isinstance(n, ast.Call) and isinstance(n.func, ast.Attribute) and n.func.attr in MUTATORS:
                base = n.func.value
                a, d = _root_attr(base, recv)
                if a is not None:
                    out.append(Write(a, "call", stmt, n, n.func.attr))
                elif isinstance(base, ast.Name) and base.id == recv:
                    out.append(Write(DICT, "call", stmt, n, n.func.attr))
            elif isinstance(n, ast.Call) and call_name(n) == "setattr" and n.args and dotted(n.args[0]) == recv:
                a = n.args[1].value if len(n.args) > 1 and isinstance(n.args[1], ast.Constant) else "*"
                out.append(Write(a, "rebind", stmt, n))
    return out


def _targets(t):
    if isinstance(t, (ast.Tuple, ast.List)):
        for e in t.elts:
            yield from _targets(e)
    elif isinstance(t, ast.Starred):
        yield from _targets(t.value)
    else:
        yield t


def _walk_stmt(st):
    """Walk a simple statement, not entering nested defs/lambdas."""
    stack = [st]
    while stack:
        n = stack.pop()
        yield n
        for c in ast.iter_child_nodes(n):
            if isinstance(c, (ast.FunctionDef, ast.AsyncFunctionDef, ast.ClassDef, ast.Lambda)):
                continue
            stack.append(c)


def func_writes(fnode, recv="self"):
    out = []
    for st in all_stmts(fnode):
        if isinstance(st, (ast.FunctionDef, ast.AsyncFunctionDef, ast.ClassDef)):
            continue
        out.extend(stmt_writes(st, recv))
    return out


def self_calls(stmt, recv="self"):
    """Names m for calls recv.m(...) evaluated at this statement's CFG node."""
    out = []
    for top in header_exprs(stmt):
        it = ast.walk(top) if not isinstance(top, ast.stmt) else _walk_stmt(top)
        for n in it:
            if isinstance(n, ast.Call) and is_self_attr(n.func, selfname=recv):
                out.append(n.func.attr)
    return out


def stmt_calls(stmt):
    out = []
    for top in header_exprs(stmt):
        it = ast.walk(top) if not isinstance(top, ast.stmt) else _walk_stmt(top)
        for n in it:
            if isinstance(n, ast.Call):
                out.append(n)
    return out
