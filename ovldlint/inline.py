"""Extract-method tolerance: private helpers that are NEW with respect to the reference inventory
(`baseline_funcs.json`, function names of the tree the rules were confirmed on) are inlined at their call sites
before any rule looks at the code, so that `extract helper` refactorings are analysed as the code they came from.

Only semantics-preserving splices are performed:
  * `return H(args)`                      -> H's body (its returns stay returns)
  * `x = H(args)` / `obj.a = H(args)`     -> H's body, with its single trailing `return v` turned into `x = v`
  * `H(args)` as a statement              -> H's body, when it has no `return <value>` and no early return
  * H(args) inside an expression          -> H's returned expression, when H is `return <expr>` only
A helper that is recursive, a generator, has decorators, uses */** parameters, or is called in a context none of
the above covers is left alone (and then analysed as a function of its own).
"""

import ast
import copy
import json
import os

HERE = os.path.dirname(os.path.abspath(__file__))
try:
    BASELINE = json.load(open(os.path.join(HERE, "baseline_funcs.json")))
except (OSError, ValueError):  # pragma: no cover
    BASELINE = {}


def _is_private(name):
    return name.startswith("_") and not (name.startswith("__") and name.endswith("__"))


def _body_wo_doc(fn):
    body = list(fn.body)
    if body and isinstance(body[0], ast.Expr) and isinstance(body[0].value, ast.Constant) and isinstance(body[0].value.value, str):
        body = body[1:]
    return body


def _returns(fn):
    out = []

    def rec(stmts):
        for st in stmts:
            if isinstance(st, ast.Return):
                out.append(st)
            elif isinstance(st, (ast.FunctionDef, ast.AsyncFunctionDef, ast.ClassDef)):
                continue
            else:
                for fld in ("body", "orelse", "finalbody"):
                    rec(getattr(st, fld, []) or [])
                for h in getattr(st, "handlers", []) or []:
                    rec(h.body)

    rec(fn.body)
    return out


def _simple_params(fn):
    a = fn.args
    if a.vararg or a.kwarg or a.kwonlyargs or a.posonlyargs:
        return None
    return [x.arg for x in a.args]


def _defaults(fn):
    a = fn.args
    names = [x.arg for x in a.args]
    ds = a.defaults
    return dict(zip(names[len(names) - len(ds):], ds))


def _pure(e):
    """An argument expression that can be substituted for a parameter wherever it is used."""
    if isinstance(e, (ast.Name, ast.Constant)):
        return True
    if isinstance(e, ast.Attribute):
        return _pure(e.value)
    return False


class _Subst(ast.NodeTransformer):
    def __init__(self, mapping, rename):
        self.mapping = mapping
        self.rename = rename

    def visit_Name(self, node):
        if node.id in self.mapping and isinstance(node.ctx, ast.Load):
            return ast.copy_location(copy.deepcopy(self.mapping[node.id]), node)
        if node.id in self.rename:
            return ast.copy_location(ast.Name(id=self.rename[node.id], ctx=node.ctx), node)
        return node

    def visit_Nonlocal(self, node):
        return None

    def visit_Global(self, node):
        return node


def _locals_of(fn):
    names = set()
    free = set()
    for n in ast.walk(fn):
        if isinstance(n, (ast.Nonlocal, ast.Global)):
            free |= set(n.names)
    for n in ast.walk(fn):
        if isinstance(n, ast.Name) and isinstance(n.ctx, ast.Store) and n.id not in free:
            names.add(n.id)
    return names


def _only_memo_decorators(fn):
    """No decorator, or only memo decorators: for the structure of its callers a memoised helper is its body (whether
    the memo itself is sound is decided by the rules on memoisation, which read the raw tree)."""
    for d in fn.decorator_list:
        e = d.func if isinstance(d, ast.Call) else d
        name = e.attr if isinstance(e, ast.Attribute) else e.id if isinstance(e, ast.Name) else None
        if name not in ("lru_cache", "cache", "cached"):
            return False
    return True


class Inliner:
    def __init__(self, modname, tree):
        self.modname = modname
        self.tree = tree
        self.base = set(BASELINE.get(modname, []))
        self.counter = 0
        self.inlined = []  # qualnames of helpers that were spliced somewhere
        self.candidates = {}  # (scope key, name) -> FunctionDef

    # ------------------------------------------------------------ discovery
    def discover(self):
        def rec(body, prefix, cls, parent):
            for st in body:
                if isinstance(st, (ast.FunctionDef,)):
                    qn = prefix + st.name
                    # a helper that did not exist in the reference tree: private by name, or a (non-dunder) method of a
                    # class of the reference tree - a step of an existing method that was given a name of its own
                    helper_name = _is_private(st.name) or (cls is not None and not st.name.startswith("__") and bool(self.base))
                    if helper_name and qn not in self.base and _only_memo_decorators(st) and _simple_params(st) is not None:
                        if not any(isinstance(x, (ast.Yield, ast.YieldFrom, ast.Await)) for x in ast.walk(st)):
                            kind = "method" if cls is not None else ("nested" if parent is not None else "func")
                            self.candidates[(kind, cls, parent, st.name)] = (st, qn)
                    rec(st.body, qn + ".", None, st)
                elif isinstance(st, ast.ClassDef):
                    rec(st.body, prefix + st.name + ".", st, parent)
                elif isinstance(st, (ast.If, ast.Try, ast.For, ast.While, ast.With)):
                    for fld in ("body", "orelse", "finalbody"):
                        rec(getattr(st, fld, []) or [], prefix, cls, parent)

        rec(self.tree.body, "", None, None)

    # ------------------------------------------------------------ matching a call to a helper
    def _helper_for(self, call, cls, func_stack):
        f = call.func
        if isinstance(f, ast.Name):
            for p in reversed(func_stack):
                k = ("nested", None, p, f.id)
                if k in self.candidates:
                    return self.candidates[k], None
            k = ("func", None, None, f.id)
            if k in self.candidates:
                return self.candidates[k], None
        elif isinstance(f, ast.Attribute) and isinstance(f.value, ast.Name) and cls is not None and func_stack:
            top = func_stack[0]
            recv = top.args.args[0].arg if top.args.args else None
            if recv and f.value.id == recv:
                k = ("method", cls, None, f.attr)
                if k in self.candidates:
                    return self.candidates[k], f.value
        return None, None

    def _bind(self, helper, call, recv_expr):
        fn, qn = helper
        params = _simple_params(fn)
        args = list(call.args)
        if any(isinstance(a, ast.Starred) for a in args) or any(k.arg is None for k in call.keywords):
            return None
        if recv_expr is not None:
            args = [recv_expr] + args
        if len(args) > len(params):
            return None
        bound = dict(zip(params, args))
        for k in call.keywords:
            if k.arg not in params or k.arg in bound:
                return None
            bound[k.arg] = k.value
        dfl = _defaults(fn)
        for p in params:
            if p not in bound:
                if p in dfl:
                    bound[p] = dfl[p]
                else:
                    return None
        return bound

    def _instantiate(self, helper, bound):
        """-> (prelude statements, body statements, rename map) with parameters substituted / bound."""
        fn, qn = helper
        self.counter += 1
        tag = f"__inl{self.counter}"
        assigned_params = {n.id for n in ast.walk(fn) if isinstance(n, ast.Name) and isinstance(n.ctx, ast.Store)} & set(bound)
        mapping = {}
        prelude = []
        rename = {}
        for p, a in bound.items():
            if _pure(a) and p not in assigned_params:
                mapping[p] = a
            else:
                new = f"{p}{tag}"
                rename[p] = new
                asg = ast.Assign(targets=[ast.Name(id=new, ctx=ast.Store())], value=copy.deepcopy(a))
                ast.copy_location(asg, fn)
                ast.fix_missing_locations(asg)
                prelude.append(asg)
        for loc in _locals_of(fn):
            if loc not in bound:
                rename[loc] = f"{loc}{tag}"
        body = [copy.deepcopy(s) for s in _body_wo_doc(fn)]
        sub = _Subst(mapping, rename)
        body = [x for x in (sub.visit(s) for s in body) if x is not None]
        return prelude, body

    # ------------------------------------------------------------ splicing
    def _is_recursive(self, helper):
        fn, qn = helper
        for c in ast.walk(fn):
            if isinstance(c, ast.Call):
                f = c.func
                if (isinstance(f, ast.Name) and f.id == fn.name) or (isinstance(f, ast.Attribute) and f.attr == fn.name):
                    return True
        return False

    def _splice_stmt(self, st, cls, func_stack):
        """Return a list of statements replacing st, or None."""
        call = None
        ctxkind = None
        if isinstance(st, ast.Return) and isinstance(st.value, ast.Call):
            call, ctxkind = st.value, "return"
        elif isinstance(st, ast.Assign) and isinstance(st.value, ast.Call):
            call, ctxkind = st.value, "assign"
        elif isinstance(st, ast.Expr) and isinstance(st.value, ast.Call):
            call, ctxkind = st.value, "expr"
        if call is None:
            return None
        helper, recv = self._helper_for(call, cls, func_stack)
        if helper is None or self._is_recursive(helper):
            return None
        fn, qn = helper
        bound = self._bind(helper, call, recv)
        if bound is None:
            return None
        rets = _returns(fn)
        body0 = _body_wo_doc(fn)
        if ctxkind == "return":
            prelude, body = self._instantiate(helper, bound)
            if not body or not isinstance(body[-1], (ast.Return, ast.Raise)):
                body.append(ast.copy_location(ast.Return(value=None), st))
            self.inlined.append(qn)
            return prelude + body
        if ctxkind == "assign":
            if len(rets) != 1 or body0[-1] is not rets[0] or rets[0].value is None:
                return None
            prelude, body = self._instantiate(helper, bound)
            last = body.pop()
            self.inlined.append(qn)
            # `a, b = helper(..)` with `return x, y`: one assignment per target when no right-hand side reads a target
            tgt = st.targets[0] if len(st.targets) == 1 else None
            if isinstance(tgt, (ast.Tuple, ast.List)) and isinstance(last.value, ast.Tuple) and len(tgt.elts) == len(last.value.elts) and all(isinstance(t, ast.Name) for t in tgt.elts) and not any(isinstance(v, ast.Starred) for v in last.value.elts):
                tnames = {t.id for t in tgt.elts}
                if not any(isinstance(x, ast.Name) and x.id in tnames for v in last.value.elts for x in ast.walk(v)):
                    outs = []
                    for t, v in zip(tgt.elts, last.value.elts):
                        a1 = ast.Assign(targets=[copy.deepcopy(t)], value=v)
                        ast.copy_location(a1, st)
                        ast.fix_missing_locations(a1)
                        outs.append(a1)
                    return prelude + body + outs
            asg = ast.Assign(targets=[copy.deepcopy(t) for t in st.targets], value=last.value)
            ast.copy_location(asg, st)
            ast.fix_missing_locations(asg)
            return prelude + body + [asg]
        if ctxkind == "expr":
            if any(r.value is not None for r in rets):
                return None
            if rets and not (len(rets) == 1 and body0[-1] is rets[0]):
                return None
            prelude, body = self._instantiate(helper, bound)
            if body and isinstance(body[-1], ast.Return):
                body.pop()
            self.inlined.append(qn)
            return prelude + (body or [ast.copy_location(ast.Pass(), st)])
        return None

    def _splice_exprs(self, node, cls, func_stack):
        """Replace calls of expression helpers (`return <expr>` only) inside `node`."""
        inl = self

        class T(ast.NodeTransformer):
            def visit_FunctionDef(self, n):
                return n

            visit_Lambda = visit_ClassDef = visit_FunctionDef

            def visit_Call(self, n):
                self.generic_visit(n)
                helper, recv = inl._helper_for(n, cls, func_stack)
                if helper is None or inl._is_recursive(helper):
                    return n
                fn, qn = helper
                body0 = _body_wo_doc(fn)
                if len(body0) != 1 or not isinstance(body0[0], ast.Return) or body0[0].value is None:
                    return n
                bound = inl._bind(helper, n, recv)
                if bound is None:
                    return n
                uses = {}
                for x in ast.walk(body0[0].value):
                    if isinstance(x, ast.Name) and x.id in bound:
                        uses[x.id] = uses.get(x.id, 0) + 1
                if any(not _pure(a) and uses.get(p, 0) > 1 for p, a in bound.items()):
                    return n
                if _locals_of(ast.Module(body=[body0[0]], type_ignores=[])) - set(bound):
                    pass
                e = copy.deepcopy(body0[0].value)
                e = _Subst({p: a for p, a in bound.items()}, {}).visit(e)
                inl.inlined.append(qn)
                return ast.copy_location(e, n)

        return T().visit(node)

    def _process_block(self, body, cls, func_stack):
        changed = True
        rounds = 0
        while changed and rounds < 4:
            changed = False
            rounds += 1
            out = []
            for st in body:
                if func_stack and not isinstance(st, (ast.FunctionDef, ast.ClassDef)):
                    rep = self._splice_stmt(st, cls, func_stack)
                    if rep is not None:
                        out.extend(rep)
                        changed = True
                        continue
                out.append(st)
            body = out
        final = []
        for st in body:
            if isinstance(st, ast.FunctionDef):
                st.body = self._process_block(st.body, None if func_stack or cls is None else cls, func_stack + [st]) if False else self._process_func(st, cls, func_stack)
                final.append(st)
            elif isinstance(st, ast.ClassDef):
                st.body = self._process_block(st.body, st, [])
                final.append(st)
            else:
                if func_stack:
                    # expression helpers inside this statement's own expressions
                    for fld, val in list(ast.iter_fields(st)):
                        if fld in ("body", "orelse", "finalbody", "handlers"):
                            continue
                        if isinstance(val, ast.AST):
                            setattr(st, fld, self._splice_exprs(val, cls, func_stack))
                        elif isinstance(val, list):
                            setattr(st, fld, [self._splice_exprs(v, cls, func_stack) if isinstance(v, ast.AST) else v for v in val])
                for fld in ("body", "orelse", "finalbody"):
                    sub = getattr(st, fld, None)
                    if sub and not isinstance(st, (ast.FunctionDef, ast.ClassDef)):
                        setattr(st, fld, self._process_block(sub, cls, func_stack))
                for h in getattr(st, "handlers", []) or []:
                    h.body = self._process_block(h.body, cls, func_stack)
                final.append(st)
        return final

    def _process_func(self, fn, cls, func_stack):
        # the class of a method is kept for `self.helper(...)` resolution in nested blocks
        stack = func_stack + [fn] if func_stack else [fn]
        return self._process_block(fn.body, cls if not func_stack else cls, stack)

    def run(self):
        self.discover()
        if not self.candidates:
            return self.tree, []
        self.tree.body = self._process_block(self.tree.body, None, [])
        ast.fix_missing_locations(self.tree)
        return self.tree, sorted(set(self.inlined))


def _stores(fn):
    """name -> number of binding occurrences in fn (nested functions not entered)"""
    out = {}
    stack = list(fn.body)
    while stack:
        n = stack.pop()
        if isinstance(n, (ast.FunctionDef, ast.AsyncFunctionDef, ast.Lambda, ast.ClassDef)):
            continue
        if isinstance(n, ast.Name) and isinstance(n.ctx, (ast.Store, ast.Del)):
            out[n.id] = out.get(n.id, 0) + 1
        stack.extend(ast.iter_child_nodes(n))
    return out


def _stable(e, params):
    """an expression that reads only parameters, attributes of them and constants (no call, no local)"""
    for x in ast.walk(e):
        if isinstance(x, ast.Name) and x.id not in params:
            return False
        if isinstance(x, (ast.Call, ast.Subscript, ast.Await, ast.Yield, ast.YieldFrom, ast.NamedExpr)):
            return False
    return True


def _rename(fn, old, new):
    for x in ast.walk(fn):
        if isinstance(x, ast.Name) and x.id == old:
            x.id = new


def merge_temporaries(fn):
    """After splicing, a caller's local and the helper's temporary often hold the same thing twice:
    `x = x__inl1` (the helper's result handed back) and `y__inl1 = <the very expression y is defined by>`.
    Both are folded when every name involved is bound exactly once, so the structure rules see one variable."""
    params = {a.arg for a in fn.args.posonlyargs + fn.args.args + fn.args.kwonlyargs}
    changed = True
    while changed:
        changed = False
        stores = _stores(fn)
        for i, st in enumerate(list(fn.body)):
            if not (isinstance(st, ast.Assign) and len(st.targets) == 1 and isinstance(st.targets[0], ast.Name)):
                continue
            tgt, val = st.targets[0].id, st.value
            # (1) x = x__inlN : the temporary is the variable
            if isinstance(val, ast.Name) and "__inl" in val.id and "__inl" not in tgt and stores.get(tgt) == 1 and stores.get(val.id) == 1 and tgt not in params:
                fn.body.remove(st)
                _rename(fn, val.id, tgt)
                changed = True
                break
            # (2) y__inlN = E where an earlier top-level statement binds y = E (E stable)
            if "__inl" in tgt and stores.get(tgt) == 1 and _stable(val, params):
                base = tgt.split("__inl")[0]
                for prev in fn.body[:i]:
                    if isinstance(prev, ast.Assign) and len(prev.targets) == 1 and isinstance(prev.targets[0], ast.Name) and prev.targets[0].id == base and stores.get(base) == 1 and ast.dump(prev.value) == ast.dump(val):
                        fn.body.remove(st)
                        _rename(fn, tgt, base)
                        changed = True
                        break
                if changed:
                    break


def inline_new_helpers(modname, tree):
    tree, inlined = Inliner(modname, tree).run()
    if inlined:
        for fn in ast.walk(tree):
            if isinstance(fn, (ast.FunctionDef, ast.AsyncFunctionDef)):
                merge_temporaries(fn)
    return tree, inlined


# ---------------------------------------------------------------------------------------------- alias propagation
def _path(e):
    """Pure access path: Name or attribute chain rooted at a Name."""
    parts = []
    while isinstance(e, ast.Attribute):
        parts.append(e.attr)
        e = e.value
    if isinstance(e, ast.Name):
        parts.append(e.id)
        return tuple(reversed(parts))
    return None


def propagate_aliases(fn):
    """`x = a.b.c` (x assigned once, a.b.c not reassigned afterwards in this function) -> uses of x read a.b.c.

    The assignment itself is kept.  Only attribute paths (at least one dot) are propagated, so plain renames of
    locals and parameters are untouched."""
    own = [n for n in ast.walk(fn) if isinstance(n, ast.stmt)]
    stores = {}
    for n in ast.walk(fn):
        if isinstance(n, ast.Name) and isinstance(n.ctx, (ast.Store, ast.Del)):
            stores[n.id] = stores.get(n.id, 0) + 1
    for a in fn.args.args + fn.args.kwonlyargs + fn.args.posonlyargs:
        stores[a.arg] = stores.get(a.arg, 0) + 1
    nested_names = set()
    for n in ast.walk(fn):
        if isinstance(n, (ast.FunctionDef, ast.Lambda)) and n is not fn:
            for x in ast.walk(n):
                if isinstance(x, ast.Name):
                    nested_names.add(x.id)
    aliases = {}

    def pure_paths(e):
        """Paths read by a pure expression: an attribute path, or a tuple of paths, names and constants."""
        p = _path(e)
        if p and len(p) >= 2:
            return [p]
        if isinstance(e, ast.Tuple) and e.elts:  # never a list display: it makes a new mutable object each time
            out = []
            for x in e.elts:
                if isinstance(x, ast.Constant):
                    continue
                px = _path(x)
                if not px:
                    return None
                out.append(px)
            return out
        return None

    in_loop = set()
    for lp in ast.walk(fn):
        if isinstance(lp, (ast.For, ast.While)):
            for x in ast.walk(lp):
                if isinstance(x, ast.Assign):
                    in_loop.add(id(x))
    for st in [s for s in ast.walk(fn) if isinstance(s, ast.Assign)]:
        if len(st.targets) == 1 and isinstance(st.targets[0], ast.Name) and id(st) not in in_loop:
            x = st.targets[0].id
            paths = pure_paths(st.value)
            if paths and stores.get(x, 0) == 1 and x not in nested_names:
                later = False
                for p in paths:
                    for n in ast.walk(fn):
                        # neither the path nor its root may be rebound after the alias is taken
                        if isinstance(n, ast.Attribute) and isinstance(n.ctx, ast.Store) and _path(n) == p and getattr(n, "lineno", 0) > st.lineno:
                            later = True
                        if isinstance(n, ast.Name) and isinstance(n.ctx, ast.Store) and n.id == p[0] and getattr(n, "lineno", 0) > st.lineno:
                            later = True
                if not later:
                    aliases[x] = (st, st.value)
    if not aliases:
        return fn

    class T(ast.NodeTransformer):
        def visit_FunctionDef(self, n):
            if n is fn:
                self.generic_visit(n)
            return n

        def visit_Name(self, n):
            if isinstance(n.ctx, ast.Load) and n.id in aliases and getattr(n, "lineno", 0) >= aliases[n.id][0].lineno:
                st, val = aliases[n.id]
                if n is st.targets[0]:
                    return n
                return ast.copy_location(copy.deepcopy(val), n)
            return n

    T().visit(fn)
    ast.fix_missing_locations(fn)
    return fn


def propagate_all(tree):
    for n in ast.walk(tree):
        if isinstance(n, ast.FunctionDef):
            propagate_aliases(n)
    return tree
