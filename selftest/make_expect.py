"""Freeze the current behaviour of the checker on the variant corpus into expect.json (run after review).
Silent entries are the equivalent / out-of-statement variants listed in DESIGN.md appendix C."""
import json, os, re, subprocess, sys
HERE = os.path.dirname(os.path.abspath(__file__))
SILENT = ["tm_missing_nocache", "mro_missing_direct", "recode_ovld_self", "get_no_compile", "closure_wrap_names_sorted",
          "c10_single_handler_not_exclusive", "c04_errors_sticky_first", "conformer_dropped",
          "extend_super_flag_ignored", "prepare_mixins_all", "dep_issupertype_dep_true",
          "funcdep_lt_swapped", "startswith_in", "variant_priority_dropped", "refactor_unregister_helper",
          "mtm_register_errors_rebound", "<unchanged>"]
out = subprocess.run([sys.executable, os.path.join(HERE, "run_mutants.py")], capture_output=True, text=True).stdout
exp = {}
for l in out.splitlines():
    m = re.match(r"\s*(?:ok|MISMATCH)?\s+(\S+)\s+(RAN|SKIP)\s+fire=(\S+) err=(\S+)", l)
    if not m or m.group(2) == "SKIP":
        continue
    name, fire, err = m.group(1), m.group(3), m.group(4)
    if name in SILENT or name.startswith("benign_"):
        exp[name] = {"silent": True}
    elif fire != "-" and err == "-":
        exp[name] = {"fire": fire.split(",")}
json.dump(exp, open(os.path.join(HERE, "expect.json"), "w"), indent=1, sort_keys=True)
print(len(exp), "expectations;", sum(1 for v in exp.values() if v.get("silent")), "silent")
