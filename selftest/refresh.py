"""Re-create stored patches (seeded changes, refactorings) that no longer apply to /repo's HEAD after a `fix:` commit.

For each such patch: find the newest ancestor commit it applies to, commit it there in a scratch worktree (outside
/repo and /verif), rebase that commit onto HEAD, and - if the rebase is clean - re-confirm it (suite still 143
passed; for seeded changes the demonstration exits 0 without and 1 with the change) and store the new diff with a
note in meta.json.  Conflicts are listed for manual re-creation.  Validates the corpus, not the tree; not part of
any check.
"""

import glob
import json
import os
import re
import shutil
import subprocess
import sys
import tempfile

HERE = os.path.dirname(os.path.abspath(__file__))
ROOT = os.path.dirname(HERE)
REPO = "/repo"
PY = "/venv/bin/python"
DESELECT = ["test_conform", "test_conform_2", "test_display", "test_display_more", "test_doc", "test_doc2", "test_method_doc"]


def sh(cmd, cwd=None, **kw):
    return subprocess.run(cmd, cwd=cwd, capture_output=True, text=True, **kw)


def applies(patch, wt):
    return sh(["git", "apply", "--check", patch], cwd=wt).returncode == 0


def suite(wt):
    env = dict(os.environ, PYTHONPATH=os.path.join(wt, "src"), PYTHONDONTWRITEBYTECODE="1")
    cmd = [PY, "-m", "pytest", "-q", "-p", "no:cacheprovider", "--timeout=900"]
    for d in DESELECT:
        cmd += ["--deselect", f"tests/test_ovld.py::{d}"]
    r = subprocess.run(cmd, cwd=wt, env=env, capture_output=True, text=True)
    tail = r.stdout.strip().splitlines()[-1] if r.stdout.strip() else ""
    m = re.search(r"(\d+) passed", tail)
    return (int(m.group(1)) if m else 0), bool(re.search(r"\b\d+ (failed|error)", tail)), tail


def demo(path, wt):
    env = dict(os.environ, PYTHONPATH=os.path.join(wt, "src"), PYTHONDONTWRITEBYTECODE="1")
    try:
        return subprocess.run([PY, path], env=env, capture_output=True, text=True, timeout=300, cwd=tempfile.gettempdir()).returncode
    except subprocess.TimeoutExpired:
        return 124


def main():
    head = sh(["git", "rev-parse", "HEAD"], cwd=REPO).stdout.strip()
    commits = sh(["git", "rev-list", "--max-count=40", "HEAD"], cwd=REPO).stdout.split()
    stale = []
    probe = tempfile.mkdtemp(prefix="ovld-refresh-")
    sh(["git", "worktree", "add", "-q", "--detach", probe, head], cwd=REPO)
    try:
        for kind in ("seeded", "refactors"):
            for d in sorted(glob.glob(os.path.join(ROOT, kind, "*"))):
                p = os.path.join(d, "patch.diff")
                if os.path.exists(p) and not applies(p, probe):
                    stale.append((kind, d, p))
    finally:
        sh(["git", "worktree", "remove", "--force", probe], cwd=REPO)
    print(f"{len(stale)} stale patches")
    for kind, d, p in stale:
        sid = os.path.basename(d)
        base = None
        for c in commits[1:]:
            wt = tempfile.mkdtemp(prefix="ovld-refresh-")
            sh(["git", "worktree", "add", "-q", "--detach", wt, c], cwd=REPO)
            ok = applies(p, wt)
            if ok:
                base = (c, wt)
                break
            sh(["git", "worktree", "remove", "--force", wt], cwd=REPO)
        if base is None:
            print(f"{sid}: applies to none of the last {len(commits)} commits - manual")
            continue
        c, wt = base
        try:
            sh(["git", "apply", p], cwd=wt)
            sh(["git", "-c", "user.email=a@b", "-c", "user.name=x", "commit", "-qam", sid], cwd=wt)
            rb = sh(["git", "-c", "user.email=a@b", "-c", "user.name=x", "rebase", "-q", head], cwd=wt)
            if rb.returncode != 0:
                conflicted = sh(["git", "diff", "--name-only", "--diff-filter=U"], cwd=wt).stdout.split()
                sh(["git", "rebase", "--abort"], cwd=wt)
                # second attempt: apply the old patch to the new tree with fuzzy context matching
                sh(["git", "checkout", "-q", "--detach", head], cwd=wt)
                sh(["git", "reset", "-q", "--hard", head], cwd=wt)
                fz = subprocess.run(["patch", "-s", "-p1", "--fuzz=3", "--no-backup-if-mismatch", "-i", p], cwd=wt, capture_output=True, text=True)
                for junk in glob.glob(os.path.join(wt, "src", "ovld", "*.orig")) + glob.glob(os.path.join(wt, "src", "ovld", "*.rej")):
                    os.remove(junk)
                if fz.returncode != 0:
                    sh(["git", "reset", "-q", "--hard", head], cwd=wt)
                    print(f"{sid}: CONFLICT rebasing from {c[:7]} in {conflicted} - manual")
                    continue
                sh(["git", "-c", "user.email=a@b", "-c", "user.name=x", "commit", "-qam", sid + " (fuzzy)"], cwd=wt)
            new = sh(["git", "diff", head], cwd=wt).stdout
            passed, failed, tail = suite(wt)
            ok = passed == 143 and not failed
            note = f"patch rebased onto /repo {head[:7]} (same change, new context); re-confirmed: suite {tail}"
            if kind == "seeded":
                dm = os.path.join(d, "demo.py")
                rc1 = demo(dm, wt)
                sh(["git", "checkout", "-q", head], cwd=wt)
                rc0 = demo(dm, wt)
                ok = ok and rc0 == 0 and rc1 == 1
                note += f"; demo exits {rc0} without / {rc1} with the change"
            print(f"{sid}: rebased from {c[:7]}: {note} -> {'KEPT' if ok else 'NOT CONFIRMED (left as is)'}")
            if ok:
                open(p, "w").write(new)
                mp = os.path.join(d, "meta.json")
                if os.path.exists(mp):
                    m = json.load(open(mp))
                    m["refreshed"] = note
                    json.dump(m, open(mp, "w"), indent=1)
        finally:
            sh(["git", "worktree", "remove", "--force", wt], cwd=REPO)
    sh(["git", "worktree", "prune"], cwd=REPO)


if __name__ == "__main__":
    main()
