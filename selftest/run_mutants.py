"""Self-validation of the checker (not of the tree): apply single-edit variants to a scratch copy of the
current /repo/src/ovld and record which property checks fire.

usage: /venv/bin/python selftest/run_mutants.py [--expect] [name ...]
Variants come from selftest/survey/b*.json and selftest/extra.json: [name, file, old, new].
Scratch copies live under a temp dir and are removed.  Nothing here is a property check.
"""

import glob
import io
import json
import multiprocessing as mp
import os
import shutil
import sys
import tempfile

HERE = os.path.dirname(os.path.abspath(__file__))
sys.path.insert(0, os.path.dirname(HERE))

from ovldlint.report import run_property  # noqa: E402
from ovldlint.rules import PROPS, rules_for  # noqa: E402

REPO = os.environ.get("OVLD_REPO", "/repo")


def load():
    out = []
    for p in sorted(glob.glob(os.path.join(HERE, "survey", "b*.json"))) + [os.path.join(HERE, "extra.json")]:
        if os.path.exists(p):
            out += [tuple(x[:5]) if len(x) > 4 else tuple(x[:4]) + (None,) for x in json.load(open(p))]
    return out


def run_one(m):
    name, file, old, new, mode = m
    tmp = tempfile.mkdtemp(prefix="ovldlint-st-")
    try:
        shutil.copytree(os.path.join(REPO, "src", "ovld"), os.path.join(tmp, "src", "ovld"))
        if file:
            path = os.path.join(tmp, file)
            s = open(path).read()
            if mode == "word":
                import re

                if not re.search(r"\b%s\b" % re.escape(old), s):
                    return name, "SKIP", {}, {}
                open(path, "w").write(re.sub(r"\b%s\b" % re.escape(old), new, s))
            else:
                if s.count(old) < 1:
                    return name, "SKIP", {}, {}
                open(path, "w").write(s.replace(old, new, 1))
        res = {}
        outs = {}
        for p in PROPS:
            rules = rules_for(p)
            if rules is None:
                continue
            buf = []
            rc = run_property(p, "thorough", rules, out=buf.append, root=tmp, evdir=os.path.join(tmp, "ev"), selfval=False)
            if rc != 0:
                res[p] = rc
                outs[p] = [l for l in buf if "VIOLATION" not in l and not l.startswith(p + " ") and "KNOWN-FINDING" not in l]
        return name, "RAN", res, outs
    finally:
        shutil.rmtree(tmp, ignore_errors=True)


def main(argv):
    verbose = "-v" in argv
    names = [a for a in argv if not a.startswith("-")]
    muts = load()
    if names:
        muts = [m for m in muts if m[0] in names]
    muts = [("<unchanged>", None, None, None, None)] + muts
    with mp.Pool(16) as pool:
        results = pool.map(run_one, muts)
    expect = {}
    ep = os.path.join(HERE, "expect.json")
    if os.path.exists(ep):
        expect = json.load(open(ep))
    bad = 0
    for name, st, res, outs in results:
        fired = sorted(p for p, rc in res.items() if rc == 1)
        errs = sorted(p for p, rc in res.items() if rc == 2)
        exp = expect.get(name)
        tag = ""
        if exp is not None:
            want = set(exp.get("fire", []))
            if exp.get("silent"):
                ok = not fired and not errs
            else:
                ok = want <= set(fired) and not errs
            tag = "ok  " if ok else "MISMATCH"
            bad += not ok
        print(f"{tag:8} {name:40} {st:4} fire={','.join(fired) or '-'} err={','.join(errs) or '-'}")
        if verbose or tag == "MISMATCH":
            for p, ls in outs.items():
                for l in ls:
                    print(f"           {p}: {l[:230]}")
    print(f"{len(results)} variants, {bad} mismatches against expect.json")
    return 1 if bad else 0


if __name__ == "__main__":
    sys.exit(main(sys.argv[1:]))
