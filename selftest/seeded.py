"""Seeded-change corpus: confirmation and detection.

  seeded.py import <out_dir> <prefix> <property>   confirm each patchN.diff/demoN.py/noteN.txt found in <out_dir>
                                                  (suite still 143 passed, demo fails with the change and passes
                                                  without) and, if confirmed, store it as /verif/seeded/<prefix>-N/
  seeded.py run [-v] [id ...]                      apply every stored patch to a scratch copy of /repo/src and run all
                                                  checks on it; print which properties fire

Confirmation runs the repository's tests and the demonstration: it validates the corpus, not the tree, and is
not part of any check.  Scratch copies live in a temp dir and are removed.
"""

import glob
import json
import multiprocessing as mp
import os
import re
import shutil
import subprocess
import sys
import tempfile

HERE = os.path.dirname(os.path.abspath(__file__))
ROOT = os.path.dirname(HERE)
sys.path.insert(0, ROOT)
SEEDED = os.path.join(ROOT, "seeded")
REPO = "/repo"
PY = "/venv/bin/python"


def scratch_repo():
    tmp = tempfile.mkdtemp(prefix="ovld-seed-")
    for d in ("src", "tests"):
        shutil.copytree(os.path.join(REPO, d), os.path.join(tmp, d))
    for f in ("pyproject.toml", "README.md"):
        if os.path.exists(os.path.join(REPO, f)):
            shutil.copy(os.path.join(REPO, f), tmp)
    subprocess.run(["git", "init", "-q"], cwd=tmp)
    return tmp


def run_suite(tmp):
    env = dict(os.environ, PYTHONPATH=os.path.join(tmp, "src"), PYTHONDONTWRITEBYTECODE="1")
    r = subprocess.run([PY, "-m", "pytest", "-q", "-p", "no:cacheprovider", "--timeout=900", "-x", "--deselect", "tests/test_ovld.py::test_conform", "--deselect", "tests/test_ovld.py::test_conform_2", "--deselect", "tests/test_ovld.py::test_display", "--deselect", "tests/test_ovld.py::test_display_more", "--deselect", "tests/test_ovld.py::test_doc", "--deselect", "tests/test_ovld.py::test_doc2", "--deselect", "tests/test_ovld.py::test_method_doc"], cwd=tmp, env=env, capture_output=True, text=True)
    tail = r.stdout.strip().splitlines()[-1] if r.stdout.strip() else r.stderr[-200:]
    m = re.search(r"(\d+) passed", tail)
    return (int(m.group(1)) if m else 0), bool(re.search(r"\b\d+ (failed|error)", tail)), tail


def run_demo(demo, srcdir):
    env = dict(os.environ, PYTHONPATH=srcdir, PYTHONDONTWRITEBYTECODE="1")
    try:
        r = subprocess.run([PY, demo], env=env, capture_output=True, text=True, timeout=300, cwd=os.path.dirname(demo))
    except subprocess.TimeoutExpired:
        return 124, "timeout"
    return r.returncode, (r.stdout + r.stderr).strip()[-400:]


def cmd_import(out_dir, prefix, prop):
    os.makedirs(SEEDED, exist_ok=True)
    for patch in sorted(glob.glob(os.path.join(out_dir, "patch*.diff"))):
        n = re.search(r"patch(\d+)\.diff", patch).group(1)
        demo = os.path.join(out_dir, f"demo{n}.py")
        note = os.path.join(out_dir, f"note{n}.txt")
        sid = f"{prefix}-{n}"
        if not os.path.exists(demo):
            print(f"{sid}: no demo, skipped")
            continue
        tmp = scratch_repo()
        try:
            rc0, out0 = run_demo(demo, os.path.join(tmp, "src"))
            ap = subprocess.run(["git", "apply", "--whitespace=nowarn", patch], cwd=tmp, capture_output=True, text=True)
            if ap.returncode != 0:
                print(f"{sid}: patch does not apply: {ap.stderr.strip()[:200]}")
                continue
            passed, failed, tail = run_suite(tmp)
            rc1, out1 = run_demo(demo, os.path.join(tmp, "src"))
        finally:
            shutil.rmtree(tmp, ignore_errors=True)
        ok = rc0 == 0 and rc1 == 1 and passed == 143 and not failed
        print(f"{sid}: demo original rc={rc0}, demo mutated rc={rc1}, suite: {tail}  -> {'CONFIRMED' if ok else 'REJECTED'}")
        if not ok:
            continue
        d = os.path.join(SEEDED, sid)
        os.makedirs(d, exist_ok=True)
        shutil.copy(patch, os.path.join(d, "patch.diff"))
        shutil.copy(demo, os.path.join(d, "demo.py"))
        meta = {
            "id": sid,
            "property": prop,
            "origin": "independent sub-agent given only the property text and a scratch worktree",
            "needs": open(note).read().strip() if os.path.exists(note) else "",
            "confirmed": {
                "suite_with_change": tail,
                "demo_on_original_exit": rc0,
                "demo_with_change_exit": rc1,
                "demo_with_change_output": out1[-300:],
                "how": "scratch copy of /repo (src, tests); git apply patch.diff; PYTHONPATH=<copy>/src /venv/bin/python -m pytest (7 environment tests deselected) and PYTHONPATH=<copy>/src /venv/bin/python demo.py",
            },
        }
        json.dump(meta, open(os.path.join(d, "meta.json"), "w"), indent=1)


REFACTORS = os.path.join(ROOT, "refactors")


def cmd_import_refactors(out_dir, prefix):
    """Behaviour-preserving refactorings written by independent sub-agents: kept if the suite still passes."""
    os.makedirs(REFACTORS, exist_ok=True)
    for patch in sorted(glob.glob(os.path.join(out_dir, "patch*.diff"))):
        n = re.search(r"patch(\d+)\.diff", patch).group(1)
        note = os.path.join(out_dir, f"note{n}.txt")
        rid = f"{prefix}-{n}"
        tmp = scratch_repo()
        try:
            ap = subprocess.run(["git", "apply", "--whitespace=nowarn", patch], cwd=tmp, capture_output=True, text=True)
            if ap.returncode != 0:
                print(f"{rid}: patch does not apply: {ap.stderr.strip()[:200]}")
                continue
            passed, failed, tail = run_suite(tmp)
        finally:
            shutil.rmtree(tmp, ignore_errors=True)
        ok = passed == 143 and not failed
        print(f"{rid}: suite: {tail} -> {'KEPT' if ok else 'REJECTED'}")
        if not ok:
            continue
        d = os.path.join(REFACTORS, rid)
        os.makedirs(d, exist_ok=True)
        shutil.copy(patch, os.path.join(d, "patch.diff"))
        json.dump({"id": rid, "kind": "behaviour-preserving refactoring (independent sub-agent)", "note": open(note).read().strip() if os.path.exists(note) else "", "suite_with_change": tail}, open(os.path.join(d, "meta.json"), "w"), indent=1)


def _detect_refactor(rid):
    from ovldlint.report import run_property
    from ovldlint.rules import PROPS, rules_for

    d = os.path.join(REFACTORS, rid)
    tmp = tempfile.mkdtemp(prefix="ovld-seed-")
    try:
        shutil.copytree(os.path.join(REPO, "src"), os.path.join(tmp, "src"))
        subprocess.run(["git", "init", "-q"], cwd=tmp)
        ap = subprocess.run(["git", "apply", "--whitespace=nowarn", os.path.join(d, "patch.diff")], cwd=tmp, capture_output=True, text=True)
        if ap.returncode != 0:
            return rid, None, {"apply": [ap.stderr.strip()[:200]]}
        res, outs = {}, {}
        for p in PROPS:
            rules = rules_for(p)
            if rules is None:
                continue
            buf = []
            rc = run_property(p, "thorough", rules, out=buf.append, root=tmp, evdir=os.path.join(tmp, "ev"), selfval=False)
            if rc != 0:
                res[p] = rc
                outs[p] = [l for l in buf if "VIOLATION" not in l and "KNOWN-FINDING" not in l and not l.startswith(p + " ")]
        return rid, res, outs
    finally:
        shutil.rmtree(tmp, ignore_errors=True)


def cmd_run_refactors(args):
    verbose = "-v" in args
    ids = [a for a in args if not a.startswith("-")] or sorted(os.listdir(REFACTORS))
    ids = [i for i in ids if os.path.isdir(os.path.join(REFACTORS, i))]
    with mp.Pool(16) as pool:
        results = pool.map(_detect_refactor, ids)
    bad = 0
    for rid, res, outs in results:
        if res is None:
            print(f"{rid:16} patch no longer applies")
            continue
        fired = sorted(p for p, rc in res.items() if rc == 1)
        errs = sorted(p for p, rc in res.items() if rc == 2)
        bad += bool(fired or errs)
        print(f"{rid:16} fire={','.join(fired) or '-'} err={','.join(errs) or '-'}  {'FALSE-ALARM' if fired or errs else 'silent'}")
        if verbose or fired or errs:
            for p, ls in outs.items():
                for l in ls:
                    print(f"      {p}: {l[:260]}")
    print(f"{len(results)} refactorings, {bad} with an alarm")


def _detect(sid):
    from ovldlint.report import run_property
    from ovldlint.rules import PROPS, rules_for

    d = os.path.join(SEEDED, sid)
    tmp = tempfile.mkdtemp(prefix="ovld-seed-")
    try:
        shutil.copytree(os.path.join(REPO, "src"), os.path.join(tmp, "src"))
        subprocess.run(["git", "init", "-q"], cwd=tmp)
        ap = subprocess.run(["git", "apply", "--whitespace=nowarn", os.path.join(d, "patch.diff")], cwd=tmp, capture_output=True, text=True)
        if ap.returncode != 0:
            return sid, None, {}, {"apply": [ap.stderr.strip()[:200]]}
        res, outs = {}, {}
        for p in PROPS:
            rules = rules_for(p)
            if rules is None:
                continue
            buf = []
            rc = run_property(p, "thorough", rules, out=buf.append, root=tmp, evdir=os.path.join(tmp, "ev"), selfval=False)
            if rc != 0:
                res[p] = rc
                outs[p] = [l for l in buf if "VIOLATION" not in l and "KNOWN-FINDING" not in l and not l.startswith(p + " ")]
        meta = json.load(open(os.path.join(d, "meta.json")))
        return sid, meta["property"], res, outs
    finally:
        shutil.rmtree(tmp, ignore_errors=True)


def cmd_run(args):
    verbose = "-v" in args
    ids = [a for a in args if not a.startswith("-")] or sorted(os.listdir(SEEDED))
    ids = [i for i in ids if os.path.isdir(os.path.join(SEEDED, i))]
    with mp.Pool(16) as pool:
        results = pool.map(_detect, ids)
    caught = 0
    for sid, prop, res, outs in results:
        fired = sorted(p for p, rc in res.items() if rc == 1)
        errs = sorted(p for p, rc in res.items() if rc == 2)
        own = prop in fired
        caught += bool(fired)
        print(f"{sid:12} breaks {prop}  fire={','.join(fired) or '-'} err={','.join(errs) or '-'}  {'CAUGHT' if own else ('caught-by-other' if fired else 'MISSED')}")
        if verbose:
            for p, ls in outs.items():
                for l in ls:
                    print(f"      {p}: {l[:260]}")
    print(f"{len(results)} seeded changes, {caught} reported by at least one check")


def cmd_table():
    ids = sorted(i for i in os.listdir(SEEDED) if os.path.isdir(os.path.join(SEEDED, i)))
    with mp.Pool(16) as pool:
        results = pool.map(_detect, ids)
    lines = ["| id | breaks | change (what it needs to manifest) | reported by (rule) |", "|----|--------|---------|-------------|"]
    for sid, prop, res, outs in results:
        meta = json.load(open(os.path.join(SEEDED, sid, "meta.json")))
        need = " ".join(meta.get("needs", "").split())[:230]
        rules = []
        for p, ls in outs.items():
            if res.get(p) == 1:
                for l in ls:
                    m = re.search(r"(C\d\d\.R\d+)", l)
                    if m and m.group(1) not in rules:
                        rules.append(m.group(1))
        lines.append(f"| {sid} | {prop} | {need} | {', '.join(rules) if rules else '**not reported**'} |")
    open(os.path.join(SEEDED, "README.md"), "w").write(
        "# Seeded changes\n\nChanges to breuleux/ovld written by independent sub-agents that were given only the text of one property and a scratch\n"
        "worktree (nothing from /verif).  Each was confirmed here on a scratch copy before it was kept: the pinned suite still\n"
        "gives 143 passed with the change, `demo.py` exits 1 with it and 0 without it (`meta.json` records the runs).\n"
        "`selftest/seeded.py run` applies each `patch.diff` to a scratch copy of the current /repo/src and runs every check.\n\n" + "\n".join(lines) + "\n"
    )
    print("\n".join(lines))


if __name__ == "__main__":
    if len(sys.argv) >= 4 and sys.argv[1] == "import-refactors":
        cmd_import_refactors(sys.argv[2], sys.argv[3])
    elif len(sys.argv) >= 2 and sys.argv[1] == "run-refactors":
        cmd_run_refactors(sys.argv[2:])
    elif len(sys.argv) >= 2 and sys.argv[1] == "table":
        cmd_table()
    elif len(sys.argv) >= 5 and sys.argv[1] == "import":
        cmd_import(sys.argv[2], sys.argv[3], sys.argv[4])
    elif len(sys.argv) >= 2 and sys.argv[1] == "run":
        cmd_run(sys.argv[2:])
    else:
        print(__doc__)
