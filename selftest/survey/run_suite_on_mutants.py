import sys, os, shutil, subprocess, json, concurrent.futures as cf
DES = ["test_conform","test_conform_2","test_display","test_display_more","test_doc","test_doc2","test_method_doc"]
def run(m):
    name, f, old, new = m
    d = f"/tmp/exp/mm_{name}"
    shutil.rmtree(d, ignore_errors=True)
    shutil.copytree("/repo", d, ignore=shutil.ignore_patterns(".git"))
    p = os.path.join(d, f)
    s = open(p).read()
    if s.count(old) != 1:
        shutil.rmtree(d); return name, f"BADPATCH count={s.count(old)}"
    open(p, "w").write(s.replace(old, new))
    cmd = ["/venv/bin/python","-m","pytest","-q","-p","no:cacheprovider","-x","tests"]
    for t in DES: cmd += ["--deselect", f"tests/test_ovld.py::{t}"]
    r = subprocess.run(cmd, cwd=d, env={**os.environ, "PYTHONPATH": d+"/src"}, capture_output=True, text=True, timeout=300)
    last = r.stdout.strip().splitlines()[-1] if r.stdout.strip() else r.stderr[-200:]
    fails = [l for l in r.stdout.splitlines() if l.startswith("FAILED") or l.startswith("ERROR")]
    shutil.rmtree(d)
    return name, ("SURVIVES " if r.returncode == 0 else "killed   ") + last + (" | " + fails[0][:90] if fails else "")
if __name__ == "__main__":
    muts = json.load(open(sys.argv[1]))
    with cf.ThreadPoolExecutor(14) as ex:
        for name, res in ex.map(run, muts):
            print(f"{name:40s} {res}")
