"""Demonstrations, against the real code in /repo, of the genuine defects that the
static rules of /verif report on the pinned tree (see DESIGN.md, "Findings").

These are NOT checks and decide nothing: the deciding step of every property is
static.  They exist because a construct may only be listed as a known finding
(or repaired with a "fix:" commit) if the failing input, schedule or history can
be shown on the real code.

usage:  /venv/bin/python /verif/findings/demos.py            # all
        /venv/bin/python /verif/findings/demos.py F05 F13    # some
Each demo prints  "<id> DEMONSTRATED <what>"  or  "<id> not-reproduced <what>".
Run from any directory except /repo/src/ovld (its types.py/abc.py shadow the stdlib).
Set OVLD_SRC=/path/to/src to run against a scratch copy.
"""

import collections
import itertools
import os
import subprocess
import sys
import threading

sys.path.insert(0, os.environ.get("OVLD_SRC", "/repo/src"))

from typing import Literal, Union  # noqa: E402

from ovld import Dependent, MultiTypeMap, Ovld, call_next, ovld, recurse  # noqa: E402
from ovld.core import Signature  # noqa: E402


def outcome(thunk):
    try:
        return thunk()
    except BaseException as e:  # noqa: BLE001
        return f"EXC {type(e).__name__}: {str(e).splitlines()[0][:70] if str(e) else ''}"


def pause_at(suffix, lineno_pred, reached, resume):
    """Trace function that parks the current thread the first time it reaches a
    library line accepted by lineno_pred(frame) (a deterministic schedule)."""

    def tracer(frame, event, arg):
        if frame.f_code.co_filename.endswith(suffix):

            def local(frame, event, arg):
                if event == "line" and not reached.is_set() and lineno_pred(frame):
                    reached.set()
                    resume.wait(5)
                return local

            return local

    return tracer


def src_line(frame):
    import linecache

    return linecache.getline(frame.f_code.co_filename, frame.f_lineno).strip()


# --------------------------------------------------------------------------- C05
def F01():
    """C05: MultiTypeMap.register flushes the dict but not the remembered errors."""

    class A: ...
    class B: ...
    class C(A, B): ...

    def mk(name, t):
        def h(*a):
            return name
        sig = Signature(types=(t,), return_type=object, req_pos=1, max_pos=1,
                        req_names=frozenset(), vararg=False, priority=0)
        return sig, h

    m = MultiTypeMap()
    m.register(*mk("fa", A))
    m.register(*mk("fb", B))
    first = outcome(lambda: m[(C,)])            # ambiguous, remembered
    m.register(*mk("fc", C))                    # disambiguates
    after = outcome(lambda: m[(C,)]())
    return after != "fc", f"first={first[:20]!r} after-register={after[:30]!r} (fresh table gives 'fc')"


# --------------------------------------------------------------------------- C11
def F02():
    """C11: multi-valued Literal on the lookup-table path matches only its first value."""
    @ovld
    def f(x: Literal[1, 2]): return "12"
    for i in range(3, 7):
        exec(f"@ovld\ndef f(x: Literal[{i}]): return '{i}'", {"ovld": ovld, "Literal": Literal, "f": f}, locals())
    @ovld
    def f(x: int): return "int"
    r = [f(1), f(2)]
    return r != ["12", "12"], f"f(1),f(2) = {r} (expected ['12','12'])"


def F03():
    """C11/C15: Literal's bound is the type of its first value."""
    @ovld
    def g(x: Literal[1, "a"]): return "lit"
    @ovld
    def g(x: object): return "obj"
    @ovld
    def g2(x: Literal["a", 1]): return "lit"
    @ovld
    def g2(x: object): return "obj"
    r = (g(1), g("a"), g2(1), g2("a"))
    return r != ("lit",) * 4, f"Literal[1,'a'] on 1,'a' and Literal['a',1] on 1,'a' -> {r}"


def F11():
    """C10/C11: overlapping Literal keys silently pick one method instead of raising ambiguity."""
    @ovld
    def f(x: Literal[1, 2]): return "12"
    @ovld
    def f(x: Literal[2, 3]): return "23"
    for i in range(10, 14):
        exec(f"@ovld\ndef f(x: Literal[{i}]): return '{i}'", {"ovld": ovld, "Literal": Literal, "f": f}, locals())
    r = outcome(lambda: f(2))
    return not r.startswith("EXC TypeError: Ambiguous"), f"f(2) with Literal[1,2] and Literal[2,3] -> {r!r}"


# --------------------------------------------------------------------------- C15 / C12 / C06
def F04():
    """C15/C12: Union equality is member-order sensitive; overlapping unions compare LESS both ways."""
    from ovld import typeorder
    from ovld.types import Union as U

    class A: ...
    class B: ...
    @ovld
    def h(x: Union[A, B]): return "first"
    @ovld
    def h(x: Union[B, A]): return "second"       # a respelling of the same signature
    o = (typeorder(U[A, B], U[B, A]).name, typeorder(U[B, A], U[A, B]).name)
    r = outcome(lambda: h(A()))
    return (U[A, B] != U[B, A]) or o[0] == o[1] == "LESS", \
        f"U[A,B]==U[B,A]: {U[A, B] == U[B, A]}; order both ways {o}; re-registered respelling -> {r!r} (same spelling gives 'second')"


_F13_CHILD = r"""
import sys; sys.path.insert(0, %r)
from typing import Union
from ovld import ovld, Dependent
@ovld
def h(x: Union[bool, str]): return "U"
@ovld
def h(x: Dependent[int, lambda x: True]): return "D"
try: print(h(True))
except Exception as e: print("EXC", type(e).__name__)
"""


def F13():
    """C06: outcome of one call flips between process runs (sort_types compares pairs one way, in set order)."""
    code = _F13_CHILD % sys.path[0]
    res = collections.Counter()
    for seed in range(24):
        p = subprocess.run([sys.executable, "-c", code], capture_output=True, text=True,
                           env={**os.environ, "PYTHONHASHSEED": str(seed)}, cwd="/")
        res[p.stdout.strip()] += 1
    return len(res) > 1, f"24 runs of the same program: {dict(res)}"


def F14():
    """C06: outcome depends on registration order of distinct signatures (candidate set order -> _pull grouping)."""
    class K: ...
    class M: ...
    P = Dependent[K, lambda x: False]
    Q = Dependent[M, lambda x: False]
    def X(a: P, b: object): return "X"
    def Y(a: object, b: Q): return "Y"
    def Z(a: K, b: object): return "Z"
    def V(a: object, b: M): return "V"
    res = collections.Counter()
    for perm in itertools.permutations([X, Y, Z, V]):
        o = Ovld(name="f")
        for m in perm:
            o.register(m)
        res[outcome(lambda: o(K(), M()))[:12]] += 1
    return len(res) > 1, f"24 registration orders of the same 4 methods: {dict(res)}"


def F21():
    """C02/C06 (not statically detected, documented only): a method of another arity changes the outcome."""
    class X: ...
    class A(X): ...
    class Q: ...
    class P(Q): ...
    class C(A, P): ...
    def build(extra):
        @ovld
        def m(a: A, b: object): return "A"
        @ovld
        def m(a: Q, b: object): return "Q"
        if extra:
            @ovld
            def m(a: P): return "P1"
        return m
    r = (outcome(lambda: build(False)(C(), 0))[:30], outcome(lambda: build(True)(C(), 0))[:30])
    return r[0] != r[1], f"without / with an inapplicable 1-arg method: {r}"


def F22():
    """C15: the values of a Literal in another order are a different signature (ordered equality)."""
    from ovld.dependent import Equals
    def a(x: Literal[1, 2]): return "first"
    def b(x: Literal[1, 2]): return "second"
    def c(x: Literal[2, 1]): return "second"
    same = Ovld(name="same", allow_replacement=False); same.register(a)
    reo = Ovld(name="reordered", allow_replacement=False); reo.register(a)
    r_same = outcome(lambda: same.register(b) and "accepted")
    r_reo = outcome(lambda: reo.register(c) and "accepted")
    d1, d2 = Ovld(name="d1"), Ovld(name="d2")
    d1.register(a); d1.register(b); d2.register(a); d2.register(c)
    disp = ([outcome(lambda: d1(v)) for v in (1, 2)], [outcome(lambda: d2(v)) for v in (1, 2)])
    shown = Equals[1, 2] != Equals[2, 1] and r_same != r_reo
    return shown, f"Equals[1,2]==Equals[2,1]: {Equals[1, 2] == Equals[2, 1]}; re-registering under allow_replacement=False: same spelling -> {r_same[:35]!r}, reordered -> {str(r_reo)[:20]!r}; dispatch same/reordered: {disp}"


def F29():
    """C09: call_next with positional parameters given by keyword out of positional order ends in 'No method'."""
    @ovld
    def f(x: int, y: int = 0): return ("int", call_next(y=y, x=x))
    @ovld
    def f(x: object, y: int = 0): return ("object", x, y)
    r = outcome(lambda: f(1, 2))
    return r != ("int", ("object", 1, 2)), f"f(1, 2) with call_next(y=y, x=x): {str(r)[:90]}"


def F39():
    """C09: a method that uses recurse and a class-private attribute loses the name mangling when re-compiled."""
    from ovld import OvldBase

    class K(OvldBase):
        def __init__(self):
            self.__secret = 10

        def m(self, x: int):
            return self.__secret + x

        def m(self, x: list):
            return [recurse(y) for y in x] + [self.__secret]

    r = (outcome(lambda: K().m(1)), outcome(lambda: K().m([1, 2])))
    return r[1] != [11, 12, 10], f"K().m(1) -> {r[0]!r}; K().m([1, 2]) -> {str(r[1])[:90]}"


def F40():
    """C06: a type[...] method that is not applicable to the call changes which method a class argument reaches."""
    import abc
    import collections.abc

    @ovld
    def g(x: abc.ABCMeta): return "meta"
    @ovld
    def g(x: object): return "obj"
    before = g(collections.abc.Sequence)
    @g.register
    def g(x: type[int]): return "type[int]"
    after = outcome(lambda: g(collections.abc.Sequence))
    return before != after, f"g(Sequence) before / after registering g(x: type[int]): {before!r} / {after!r}"


def F43():
    """C09: recurse inside a class body defined in the method raises NameError (the planted names are class-private there)."""
    @ovld
    def f(xs: list):
        class K:
            val = recurse(xs[0])
        return K.val

    @ovld
    def f(x: int):
        return x + 1

    r = outcome(lambda: f([1, 2]))
    return r != 2, f"f([1, 2]) with `class K: val = recurse(xs[0])` in the method -> {str(r)[:90]}"


def F38():
    """C12: a union / an intersection against a value-dependent type does not compare to mirror-image answers."""
    from ovld.mro import typeorder
    from ovld.types import Intersection, Union as OUnion
    D = Dependent[int, lambda x: True]
    pairs = [(OUnion[bool, str], D), (Intersection[int, str], D)]
    got = [(str(typeorder(a, b)), str(typeorder(b, a))) for a, b in pairs]
    mirror = {"Order.LESS": "Order.MORE", "Order.MORE": "Order.LESS"}
    bad = [g for g in got if mirror.get(g[0], g[0]) != g[1]]
    return bool(bad), f"(typeorder(a, b), typeorder(b, a)) for Union[bool, str] / Intersection[int, str] against Dependent[int, c]: {got}"


def F33():
    """C03: a method whose parameters all have defaults rejects the call without arguments."""
    @ovld
    def f(x: int = 3): return ("int", x)
    @ovld
    def g(*, k: int = 1): return ("k", k)
    r = (outcome(lambda: f()), outcome(lambda: g()), f(4))
    return r[0] != ("int", 3) or r[1] != ("k", 1), f"f() -> {str(r[0])[:70]}; g() -> {str(r[1])[:40]}; f(4) -> {r[2]!r}"


# --------------------------------------------------------------------------- C18 / C19
def F05():
    """C18: a failed build leaves the generated entry point live over a partially filled table."""
    @ovld
    def f(x: int): return "int"
    @ovld
    def f(x: str):
        cn = call_next  # noqa: F841  (misuse: UsageError while adapting this method)
        return "str"
    @ovld
    def f(x: float): return "float"
    r = [outcome(lambda: f(1))[:22], outcome(lambda: f(1.5))[:40], outcome(lambda: f(1))]
    bad = r[2] == "int" or r[1].startswith("EXC TypeError: No method")
    return bad, f"1st call {r[0]!r}; then f(1.5) -> {r[1]!r}, f(1) -> {r[2]!r} (float method IS registered)"


def F06():
    """C19: (a) a second caller during the lazy build sees an empty table; (b) two builders double-fill it."""
    @ovld
    def f(x: int): return "int"
    @ovld
    def f(x: str): return "str"
    reached, resume, out = threading.Event(), threading.Event(), {}

    def t1():
        sys.settrace(pause_at("ovld/core.py", lambda fr: fr.f_code.co_name == "compile"
                              and src_line(fr).startswith("for key, fn in list(self.defns.items())"), reached, resume))
        out["t1"] = outcome(lambda: f(1))
        sys.settrace(None)
    th = threading.Thread(target=t1); th.start(); reached.wait(5)
    out["t2"] = outcome(lambda: f("s"))
    resume.set(); th.join()

    @ovld
    def g(x: int): return "int"
    @ovld
    def g(x: str): return "str"
    reached, resume = threading.Event(), threading.Event()

    def t3():
        sys.settrace(pause_at("ovld/core.py", lambda fr: fr.f_code.co_name == "compile"
                              and src_line(fr).startswith("self.analyze_arguments()"), reached, resume))
        out["t3"] = outcome(lambda: g(1))
        sys.settrace(None)
    th = threading.Thread(target=t3); th.start(); reached.wait(5)
    g.__ovld__.compile()                      # the other first caller runs its build to completion
    resume.set(); th.join()
    out["after"] = outcome(lambda: g(1))
    bad = out["t2"] != "str" or out["after"] != "int"
    return bad, f"(a) concurrent f('s') -> {out['t2'][:45]!r}; (b) after two builders g(1) -> {out['after'][:40]!r}"


def F09():
    """C18/C19: resolve() publishes the first rank before the call_next continuations."""
    @ovld(priority=1)
    def g(x: int): return ("hi", call_next(x))
    @ovld
    def g(x: int): return "lo"
    class I2(int): ...
    class I3(int): ...
    g(1)
    is_site = lambda fr: fr.f_code.co_name == "resolve" and src_line(fr).startswith("if not codes")  # noqa: E731
    # (schedule) another thread looks up the continuation while the resolver is between the two stores
    reached, resume, out = threading.Event(), threading.Event(), {}

    def t1():
        sys.settrace(pause_at("ovld/typemap.py", is_site, reached, resume))
        out["t1"] = outcome(lambda: g(I2(5)))
        sys.settrace(None)
    th = threading.Thread(target=t1); th.start(); reached.wait(5)
    out["t2"] = outcome(lambda: g(I2(6)))
    resume.set(); th.join()
    # (crash point) an interrupt between the two stores is permanent
    def interrupt(frame, event, arg):
        if frame.f_code.co_filename.endswith("ovld/typemap.py"):
            def local(frame, event, arg):
                if event == "line" and is_site(frame):
                    sys.settrace(None)
                    raise KeyboardInterrupt
                return local
            return local
    sys.settrace(interrupt)
    first = outcome(lambda: g(I3(7)))
    sys.settrace(None)
    out["later"] = outcome(lambda: g(I3(7)))
    bad = out["t2"] != ("hi", "lo") or out["later"] != ("hi", "lo")
    return bad, f"schedule: concurrent g(I2) -> {str(out['t2'])[:45]!r}; crash: {first[:22]!r} then g(I3) -> {str(out['later'])[:45]!r}"


# --------------------------------------------------------------------------- C09
def F07():
    """C09: recurse(a, **kw) is rewritten into a lookup keyed (None, dict)."""
    @ovld
    def f(x: list, *, k: int = 0):
        kw = {"k": 1}
        return [recurse(a, **kw) for a in x]
    @ovld
    def f(x: int, *, k: int = 0): return x + k
    r = outcome(lambda: f([1, 2]))
    return r != [2, 3], f"f([1,2]) -> {r!r} (expected [2, 3])"


def F08():
    """C09: call_next(*args) is a valid placement but is rejected."""
    @ovld(priority=1)
    def g(x: int):
        args = (x,)
        return call_next(*args)
    @ovld
    def g(x: int): return x * 2
    r = outcome(lambda: g(3))
    return r != 6, f"g(3) -> {r!r} (expected 6)"


def F18():
    """C09: recurse(...) as a comprehension's iterable: the rewrite puts a walrus where Python forbids it."""
    @ovld
    def c(x: list): return [y for y in recurse(tuple(x))]
    @ovld
    def c(x: tuple): return list(x)
    r = outcome(lambda: c([1, 2]))
    return r != [1, 2], f"c([1,2]) -> {r!r} (expected [1, 2])"


# --------------------------------------------------------------------------- C03 / C10
def F10():
    """C03/C10: a keyword-only value-dependent parameter crashes the dependent wrapper (args[0])."""
    @ovld
    def h(*, x: Literal[1]): return "one"
    @ovld
    def h(*, x: int): return "int"
    r = outcome(lambda: h(x=1))
    return r != "one", f"h(x=1) -> {r!r} (expected 'one')"


def F16():
    """C03: omitting an optional positional drops the keywords from lookup and call."""
    @ovld
    def k(x: int, y: int = 7, *, z: int): return (x, y, z)
    r = outcome(lambda: k(1, z=3))
    return r != (1, 7, 3), f"k(1, z=3) -> {r!r} (expected (1, 7, 3))"


def F15():
    """C10: a union of dependent types evaluates a predicate on a value outside its bound."""
    seen = []
    def p1(x): seen.append(("p1", x)); return x > 0
    def p2(x): seen.append(("p2", x)); return x.startswith("a")
    @ovld
    def u(x: Dependent[int, p1] | Dependent[str, p2]): return "dep"
    @ovld
    def u(x: object): return "obj"
    r = outcome(lambda: u("abc"))
    return ("p1", "abc") in seen, f"u('abc') -> {r[:50]!r}; predicates asked: {seen}"


def F19():
    """C10: a dependent method that does not hold falls into an ambiguous rank as 'No method'."""
    class A: ...
    class B: ...
    class C(A, B): ...
    @ovld
    def d(x: Dependent[object, lambda x: False]): return "dep"
    @ovld
    def d(x: A): return "A"
    @ovld
    def d(x: B): return "B"
    r = outcome(lambda: d(C()))
    return not r.startswith("EXC TypeError: Ambiguous"), f"d(C()) -> {r!r} (without the dependent method: Ambiguous resolution)"


# --------------------------------------------------------------------------- C16
def F12():
    """C16: using a grandchild locks the parent but not the grandparent; they drift silently."""
    @ovld
    def gp(x: int): return "gp-int"
    p = gp.__ovld__.copy()
    c = p.copy()
    @c.register
    def _(x: str): return "c-str"
    cf = c.dispatch
    cf(1)
    def reg():
        @gp.register
        def _(x: float): return "gp-float"
        return "accepted"
    r = outcome(reg)
    return r == "accepted", f"register on grandparent after grandchild was used -> {r!r}; grandchild(1.5) -> {outcome(lambda: cf(1.5))[:40]!r}"


def F17():
    """C16/C05: add_mixins on a function already in use is not rebuilt."""
    @ovld
    def a(x: int): return "a-int"
    @ovld
    def b(x: str): return "b-str"
    a(1)
    a.add_mixins(b)
    r = outcome(lambda: a("s"))
    return r != "b-str", f"a('s') after a.add_mixins(b) -> {r[:45]!r} (expected 'b-str')"


# --------------------------------------------------------------------------- C14 / C07
def F20():
    """C14/C07: resolve() and f.next key every argument by type[...] unlike the entry point / call_next."""
    class Meta(type): ...
    class K(metaclass=Meta): ...
    @ovld
    def f(x: Meta): return "meta"
    @ovld
    def f(x: int): return "int"
    @ovld(priority=1)
    def g(x: object): return ("top", g.next(x))
    @ovld
    def g(x: Meta): return "meta"
    @ovld(priority=1)
    def h(x: object): return ("top", call_next(x))
    @ovld
    def h(x: Meta): return "meta"
    r = (f(K), outcome(lambda: f.resolve(K).__name__)[:32], str(outcome(lambda: g(K)))[:32], outcome(lambda: h(K)))
    return r[1].startswith("EXC") or r[2].startswith("EXC"), f"call={r[0]!r} resolve={r[1]!r} via f.next={r[2]!r} via call_next={r[3]!r}"


ALL = ["F01", "F02", "F03", "F04", "F05", "F06", "F07", "F08", "F09", "F10", "F11",
       "F12", "F13", "F14", "F15", "F16", "F17", "F18", "F19", "F20", "F21", "F22", "F29", "F33", "F38", "F39", "F40", "F43"]

if __name__ == "__main__":
    ids = sys.argv[1:] or ALL
    n = 0
    for i in ids:
        fn = globals()[i]
        try:
            shown, what = fn()
        except BaseException as e:  # noqa: BLE001
            shown, what = False, f"demo crashed: {type(e).__name__}: {e}"
        n += bool(shown)
        print(f"{i} {'DEMONSTRATED ' if shown else 'not-reproduced'} {fn.__doc__.strip().splitlines()[0]}\n      {what}")
    print(f"{n}/{len(ids)} demonstrated")
